"""Integer lemma for the index helper `pytorch_wavelets.utils.reflect` (used by mypad / symm_pad_1d):
for a concrete length l and EVERY integer x,  reflect(x, -0.5, l-0.5) == half-sample symmetric index of x.

The function body is cut out of the current /repo source by `ast` and executed on a symbolic scalar: the four NumPy calls it
makes (asanyarray, fmod, where, array) are replaced by z3-term builders, so the result is a z3 term in the integer x."""
import ast
import os
import z3


class _Np:
    """stand-in for the numpy calls of reflect(); values are z3 Real terms"""
    @staticmethod
    def asanyarray(x):
        return x

    side = []      # definitional side constraints of the current run
    count = [0]

    @staticmethod
    def fmod(a, b):
        # C fmod: a = b*q + m with q = trunc(a/b), i.e. m has the sign of the dividend and |m| < b (b is a positive constant
        # here).  q and m are fresh variables pinned down by linear constraints (mixed integer/real linear arithmetic).
        _Np.count[0] += 1
        q = z3.Int('fmod_q%d' % _Np.count[0]); m = z3.Real('fmod_m%d' % _Np.count[0])
        _Np.side.append(a == b * z3.ToReal(q) + m)
        _Np.side.append(z3.If(a >= 0, z3.And(m >= 0, m < b), z3.And(m <= 0, m > -b)))
        return m

    @staticmethod
    def where(c, a, b):
        return z3.If(c, a, b)

    @staticmethod
    def array(v, dtype=None):
        return v


class _X:
    """the symbolic integer argument; only .dtype is read from it by reflect()"""
    dtype = 'int32'


def reflect_term(repo, x_real, minx, maxx):
    src = open(os.path.join(repo, 'pytorch_wavelets/utils.py')).read()
    tree = ast.parse(src)
    fn = [n for n in tree.body if isinstance(n, ast.FunctionDef) and n.name == 'reflect']
    if not fn:
        raise LookupError('reflect() not found in pytorch_wavelets/utils.py')
    code = ast.get_source_segment(src, fn[0])
    ns = {'np': _Np}
    exec(compile(code, 'reflect_under_test', 'exec'), ns)

    class _V:   # z3 term that also answers `.dtype`
        pass
    # reflect() does `x = np.asanyarray(x)` and at the end `np.array(out, dtype=x.dtype)`: give the term a dtype attribute
    class Term(z3.ArithRef):
        pass
    t = x_real
    try:
        t.dtype = 'int32'
    except Exception:
        pass
    return ns['reflect'](t, z3.RealVal(minx), z3.RealVal(maxx))


def check_reflect(repo, lengths, timeout_ms=20000):
    """-> list of (l, verdict, counterexample x or None)"""
    out = []
    for l in lengths:
        x = z3.Int('x')
        xr = z3.ToReal(x)
        _Np.side = []
        try:
            r = reflect_term(repo, xr, '-1/2', '%d/2' % (2 * l - 1))
        except Exception as e:   # the source left the fragment the stand-in covers
            out.append((l, 'unsupported: %s' % (str(e)[:80],), None))
            continue
        y = x % (2 * l)
        ref = z3.If(y < l, y, 2 * l - 1 - y)
        s = z3.Solver(); s.set('timeout', timeout_ms)
        for c in _Np.side:
            s.add(c)
        s.add(r != z3.ToReal(ref))
        v = str(s.check())
        cx = None
        if v == 'sat':
            cx = s.model().eval(x, model_completion=True).as_long()
        out.append((l, v, cx))
    return out
