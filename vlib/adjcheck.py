"""Generic 'back-propagation is the exact adjoint' check (C05-style) for linear modules.

run(pw, leaves) -> list of output tensors (placeholders / None allowed: they get no cotangent).
The tape model of autograd drives the repository's own backward functions; the oracle is J^T g
read off the coefficient table of the same symbolic forward run.
"""
import time
import numpy as np
from fractions import Fraction
import symtorch
from symtorch import poly as P, tensor as T, autograd as AG
from symtorch.poly import Poly
from vlib import core, smt


def _is_out(o):
    return isinstance(o, T.Tensor) and o.a.dtype == object and o.a.ndim > 0


def _is_rout(o, rt):
    return isinstance(o, rt.Tensor) and o.dim() > 0 and o.requires_grad


def adjoint_check(res, cfg, facts0, run, shapes, sub, none, tau, interior_fn=None, max_sat=4, seed=11, leaf_names=None):
    return core.run_paths(res, lambda: _adjoint_path(res, cfg, facts0, run, shapes, sub, none, tau, interior_fn, max_sat, seed, leaf_names))


def _adjoint_path(res, cfg, facts0, run, shapes, sub, none, tau, interior_fn, max_sat, seed, leaf_names):
    rt = symtorch.real_torch()
    nl = len(shapes)
    t0 = time.time()
    with symtorch.symbolic():
        spw = symtorch.sym()
        leaves = []; lids = []
        for k, s in enumerate(shapes):
            if none[k]:
                leaves.append(none[k] if none[k] is not True and none[k] != 1 else None); lids.append(None); continue
            t, i = core.symin(s, name='in%d' % k, requires_grad=bool(sub[k]))
            leaves.append(t); lids.append(i)
        so = core.outcome(lambda: run(spw, leaves))
        bo = None
        if so[0] == 'ok':
            outs = [o for o in so[1] if _is_out(o) and o.requires_grad]
            vals = [AG.resolve(o) for o in outs]
            cots = []; cids = []
            for o in outs:
                g, gi = core.symin(tuple(o.shape), kind='cot', name='g')
                cots.append(g); cids.append(gi)
            bo = core.outcome(lambda: AG.backprop(outs, cots))
            if cfg.get('twice') and bo[0] == 'ok':
                # back-propagating a second time through the same graph (retain_graph=True) must give the same gradients
                bo = core.outcome(lambda: AG.backprop(outs, cots))
    res.symexec_s += time.time() - t0
    res.funcs = sorted(set(res.funcs) | T.STATE.funcs_entered)
    for o in (so, bo):
        if o is not None and o[0] == 'unsupported':
            res.status = 'inconclusive'; res.notes.append('symbolic engine: ' + o[1]); return None
    rng = np.random.default_rng(seed)
    rleaves = [None if none[k] else rt.tensor(rng.uniform(-1, 1, size=s), requires_grad=bool(sub[k])) for k, s in enumerate(shapes)]
    ro = core.outcome(lambda: run(symtorch.real(), rleaves))
    if so[0] != ro[0] or (so[0] == 'raise' and so[1] != ro[1]):
        res.status = 'error'; res.trace = 'symbolic outcome %r differs from real torch outcome %r' % (core.brief(so), core.brief(ro)); return None
    if so[0] == 'raise':
        res.status = 'skipped'; res.notes.append('transform raises %s: outside the adjoint property' % so[1]); return None
    routs = [o for o in ro[1] if _is_rout(o, rt)]
    if len(routs) != len(outs) or any(tuple(a.shape) != tuple(b.shape) for a, b in zip(outs, routs)):
        res.status = 'error'; res.trace = 'differentiable outputs differ between symbolic and real run: %s vs %s' % ([tuple(o.shape) for o in outs], [tuple(o.shape) for o in routs]); return None
    if not outs:
        res.status = 'skipped'; res.notes.append('no output requires grad'); return None
    gv = [rng.uniform(-1, 1, size=tuple(o.shape)) for o in outs]
    pc = list(P.PATHS.taken)
    if pc:
        env0 = P.AtomEnv()
        for k in range(nl):
            if lids[k] is not None:
                for a, v in zip(lids[k].reshape(-1), rleaves[k].detach().numpy().reshape(-1)):
                    env0[int(a)] = float(v)
        for gi, g in zip(cids, gv):
            for a, v in zip(gi.reshape(-1), g.reshape(-1)):
                env0[int(a)] = float(v)
        if not core.path_env_ok(env0):
            # pick a validation point on this path (dyadic values, so that the float run branches identically)
            ps = smt.Solver(stats=smt.Stats()); ps.keep_sample = False
            for i_ in [i for i in lids if i is not None] + cids:
                for a in i_.reshape(-1):
                    ps.var(int(a))
            ps.add_path(pc)
            import z3 as _z3
            m = ps.nice_model(_z3.BoolVal(True), [a for a in ps.vars if P.ATOMS.kind[a] in ('in', 'cot')])
            if m is None:
                res.notes.append('no dyadic point on path %s: engine validation skipped for this path' % ([d for _, d in pc],))
                rleaves = None
            else:
                rleaves = [None if none[k] else rt.tensor(core.model_array(m, lids[k]), requires_grad=bool(sub[k])) for k in range(nl)]
                gv = [core.model_array(m, gi) for gi in cids]
                routs = [o for o in run(symtorch.real(), rleaves) if _is_rout(o, rt)]
    if rleaves is None:
        return None
    want = [l for k, l in enumerate(rleaves) if l is not None and sub[k]]
    rgo = core.outcome(lambda: rt.autograd.grad(routs, want, [rt.tensor(g) for g in gv], allow_unused=True, retain_graph=bool(cfg.get('twice'))))
    if cfg.get('twice') and rgo[0] == 'ok':
        rgo = core.outcome(lambda: rt.autograd.grad(routs, want, [rt.tensor(g) for g in gv], allow_unused=True))
    if bo[0] != rgo[0] or (bo[0] == 'raise' and bo[1] != rgo[1]):
        res.status = 'error'; res.trace = 'backward outcome differs: tape model %r, real autograd %r' % (bo[:3], rgo[:3]); return None
    if bo[0] == 'raise':
        res.status = 'violation'
        res.violations.append(dict(what='backward raises %s: %s' % (bo[1], bo[2][:100]), facts=dict(facts0, interior=False, nograd=False, raises=True), replay=dict(kind='raise'), reproduced=True)); return None
    acc = bo[1]
    env = P.AtomEnv()
    for gi, g in zip(cids, gv):
        for a, v in zip(gi.reshape(-1), g.reshape(-1)):
            env[int(a)] = float(v)
    dev = 0.0
    wi = 0
    for k in range(nl):
        if none[k] or not sub[k]:
            continue
        rg = rgo[1][wi]; wi += 1
        ga = AG.grad_of(leaves[k], acc)
        sv = np.array([0.0 if p is None else p.evalf(env) for p in ga.reshape(-1)])
        rv = np.zeros(sv.shape) if rg is None else rg.detach().numpy().reshape(-1)
        dev = max(dev, float(np.abs(sv - rv).max()))
        if (rg is None) != all(p is None for p in ga.reshape(-1)):
            res.status = 'error'; res.trace = 'gradient presence differs between tape model and real autograd for leaf %d' % k; return None
    res.validated = dev if res.validated is None else max(res.validated, dev)
    if dev > 1e-9:
        res.status = 'error'; res.trace = 'tape model deviates from real autograd by %g' % dev; return None
    Jt = {}
    for v, gi in zip(vals, cids):
        for p, ga_ in zip(v.reshape(-1), gi.reshape(-1)):
            if not p.is_linear() or p.const_value():
                res.status = 'inconclusive'; res.notes.append('forward output is not a homogeneous linear form'); return None
            g = Poly.var(int(ga_))
            for kx, c in p.t.items():
                Jt.setdefault(kx[0], []).append((c, g))
    st = res.stats or smt.Stats(); solver = smt.Solver(stats=st)
    if pc:
        for gi in cids:
            for a in gi.reshape(-1):
                solver.var(int(a))
        solver.add_path(pc)
        facts0 = dict(facts0, path=[bool(d) for _, d in pc])
    sats = []
    first = None
    pw_dec = None
    for k in range(nl):
        if none[k] or not sub[k]:
            continue
        ga = AG.grad_of(leaves[k], acc)
        if any(p is not None for p in ga.reshape(-1)):
            ga = np.array([P.ZERO if p is None else p for p in ga.reshape(-1)], dtype=object).reshape(ga.shape)
        for idx in np.ndindex(*ga.shape):
            atom = int(lids[k][idx])
            true = P.lincomb(Jt.get(atom, []))
            got = ga[idx]
            interior = bool(interior_fn(k, idx, ga.shape)) if interior_fn else True
            if got is None:
                if not true.is_zero():
                    sats.append((k, idx, None, interior, 'nograd', tau))
                    break
                continue
            d = got - true
            if first is None and (got.t or true.t):
                first = d
            if not d.is_zero():
                res.nontrivial = True
            tau_used = tau
            if not pc and smt.has_selection(d):
                # the backward pass selects values by magnitude (torch.where / clamp on the cotangent): compare on shrinking boxes
                if pw_dec is None:
                    pw_dec = smt.PiecewiseDecider(st)
                    res.notes.append('piecewise-linear backward: compared on cotangent boxes of radius %s' % [str(x) for x in smt.PIECEWISE_SCALES])
                v, model, s_ = pw_dec.decide(d, tau, label='leaf%d%s' % (k, list(idx)))
                if v == 'sat':
                    tau_used = Fraction(tau) * s_
            else:
                v, model = solver.decide_amplified(d, tau, label='leaf%d%s' % (k, list(idx)))
            if v == 'sat':
                if not any(s[0] == k and s[3] == interior for s in sats):
                    if pc:
                        nm = solver.nice_model(solver._last_query, [a for a in solver.vars if P.ATOMS.kind[a] in ('in', 'cot')])
                        model = nm or model
                    sats.append((k, idx, model, interior, 'value', tau_used))
            elif v != 'unsat':
                res.status = 'inconclusive'; res.notes.append('solver answered %s' % v)
            if len(sats) >= max_sat or (interior_fn is None and any(s[0] == k for s in sats)) or \
                    (interior_fn is not None and len([s for s in sats if s[0] == k]) >= 2):
                break
    if first is not None and cids and cids[0].size:
        if smt.has_selection(first):
            first = P.ZERO          # the canary is about the solver set-up, not about a piecewise residual
        dd = first + Poly.var(int(cids[0].reshape(-1)[0])) * Fraction(1, 10 ** 6) * max(1, int(float(tau) * 10 ** 9))
        cs = smt.Solver(stats=smt.Stats()); cs.keep_sample = False
        v, m = cs.decide(dd, tau)
        if v == 'unsat':
            res.status = 'error'; res.trace = 'canary query was not refuted (%s)' % v; return None
    res.stats = st
    for k, idx, model, interior, kind, tau_u in sats:
        facts = dict(facts0, leaf=(leaf_names[k] if leaf_names else k), interior=bool(interior), nograd=kind == 'nograd')
        if tau_u != tau:
            facts['cotangent_scale'] = float(Fraction(tau_u) / Fraction(tau))
        gvv = None if model is None else [core.model_array(model, gi) for gi in cids]
        rep = replay_adjoint(run, shapes, sub, none, gvv, k, idx, float(tau_u), twice=bool(cfg.get('twice')))
        if kind == 'nograd':
            res.violations.append(dict(what='input %s requires grad and influences the output but receives no gradient' % facts['leaf'], facts=facts,
                                       replay=dict(kind='nograd', leaf=k, idx=list(idx)), reproduced=rep['reproduced']))
        else:
            res.violations.append(dict(what='gradient of input %s at %s differs from J^T g by %.3g (%s)%s' % (facts['leaf'], list(idx), rep['diff'], 'interior' if interior else 'border region',
                                                                                                                 ' on the data-dependent path %s' % facts0.get('path') if pc else ''),
                                       facts=facts, path_dependent=bool(pc), replay=dict(kind='grad', g=[g.tolist() for g in gvv], leaf=k, idx=list(idx), tau=float(tau_u)), reproduced=rep['reproduced']))
    if res.violations:
        res.status = 'violation'
    return dict(acc=acc, leaves=leaves, lids=lids, cids=cids, outs=outs, vals=vals)


def replay_adjoint(run, shapes, sub, none, gv, k, idx, tau, twice=False):
    """true VJP entry by definition, <g, T(e_idx)> on the real library, vs the real autograd gradient"""
    rt = symtorch.real_torch()
    leaves = [None if none[j] else rt.zeros(*s, dtype=rt.float64, requires_grad=bool(sub[j])) for j, s in enumerate(shapes)]
    outs = [o for o in run(symtorch.real(), leaves) if _is_rout(o, rt)]
    if gv is None:
        gv = [np.ones(tuple(o.shape)) for o in outs]
    want = [l for j, l in enumerate(leaves) if l is not None and sub[j]]
    grads = rt.autograd.grad(outs, want, [rt.tensor(g) for g in gv], allow_unused=True, retain_graph=bool(twice))
    if twice:
        grads = rt.autograd.grad(outs, want, [rt.tensor(g) for g in gv], allow_unused=True)
    pos = [j for j in range(len(shapes)) if not none[j] and sub[j]].index(k)
    g = grads[pos]
    e = [None if none[j] else np.zeros(s) for j, s in enumerate(shapes)]
    e[k][tuple(idx)] = 1.0
    with rt.no_grad():
        Te_all = run(symtorch.real(), [None if a is None else rt.tensor(a) for a in e])
    # align with differentiable outputs by position
    full = run(symtorch.real(), leaves)
    keep = [i for i, o in enumerate(full) if _is_rout(o, rt)]
    Te = [Te_all[i] for i in keep]
    true = sum(float((rt.tensor(gg) * t).sum()) for gg, t in zip(gv, Te))
    if g is None:
        dep = max(float(t.abs().max()) for t in Te)
        return dict(reproduced=dep > 1e-12, diff=abs(true))
    diff = abs(float(g[tuple(idx)]) - true)
    return dict(reproduced=diff > tau / 2, diff=diff)
