"""Oracles: the reference packages run on basis vectors give the rows of exact linear forms.
Affinity of each oracle is checked on every use (random + zero vector)."""
import numpy as np
import pywt
import warnings

warnings.filterwarnings('ignore')


def _wave(w):
    if isinstance(w, (pywt.Wavelet,)):
        return w
    if isinstance(w, str):
        return pywt.Wavelet(w)
    return w


def wavedec_rows(wave, mode, N, J):
    """-> (yl_rows (k0 x N), [yh_rows finest first])"""
    c = pywt.wavedec(np.eye(N), _wave(wave), mode=mode, level=J, axis=-1)
    return c[0].T.copy(), [b.T.copy() for b in c[1:][::-1]]


def wavedec_apply(wave, mode, x, J):
    c = pywt.wavedec(x, _wave(wave), mode=mode, level=J, axis=-1)
    return c[0], [b for b in c[1:][::-1]]


def wavedec2_rows(wave, mode, H, W, J):
    """-> (yl (h,w,H*W), [yh (3,h,w,H*W) finest first]) ; wave may be a (col, row) pair"""
    n = H * W
    E = np.eye(n).reshape(n, H, W)
    c = pywt.wavedec2(E, wave, mode=mode, level=J, axes=(-2, -1))
    yl = np.moveaxis(c[0], 0, -1).copy()
    yh = [np.moveaxis(np.stack(b, axis=1), 0, -1).copy() for b in c[1:][::-1]]
    return yl, yh


def wavedec2_apply(wave, mode, x, J):
    c = pywt.wavedec2(x, wave, mode=mode, level=J, axes=(-2, -1))
    return c[0], [np.stack(b, axis=-3) for b in c[1:][::-1]]


def check_affine(apply_fn, rows_flat, shape, rng, tol=1e-9):
    """apply_fn(x)->flat vector must equal rows_flat @ x.ravel() and map 0 to 0"""
    x = rng.uniform(-1, 1, size=shape)
    got = apply_fn(x)
    exp = rows_flat @ x.ravel()
    z = apply_fn(np.zeros(shape))
    dev = max(float(np.abs(got - exp).max()) if got.size else 0.0, float(np.abs(z).max()) if z.size else 0.0)
    return dev <= tol * max(1.0, float(np.abs(rows_flat).sum(axis=1).max()) if rows_flat.size else 1.0), dev
