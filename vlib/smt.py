"""z3 driver: tolerance queries over exact residual polynomials (Forms L / P of DESIGN.md §3.4).

decide(residual, tau): is there an assignment of the atoms inside their boxes with |residual| > tau ?
  'unsat'  -> |residual| <= tau for every assignment in the box (holds)
  'sat'    -> candidate counterexample (model returned as {atom: Fraction}); decided by replay
  'unknown'-> inconclusive
Rounding lemma: coefficients are rounded to the grid 2^-GRID_BITS; the dropped mass eps (exact,
times the monomial's box bound) is subtracted from the threshold, so 'unsat' of the rounded query
implies the bound for the exact residual.
"""
import time
from fractions import Fraction
import z3
import sys as _sys
if hasattr(_sys, 'set_int_max_str_digits'):
    _sys.set_int_max_str_digits(0)      # z3 model values can have thousands of digits
from symtorch import poly as P
from symtorch.poly import Poly

GRID_BITS = 80
GRID = 1 << GRID_BITS


class Stats:
    def __init__(self):
        self.queries = 0; self.unsat = 0; self.sat = 0; self.unknown = 0; self.trivial_zero = 0
        self.solver_s = 0.0; self.nonlinear = 0; self.samples = []; self.rounded_away = 0

    def add(self, o):
        for k in ('queries', 'unsat', 'sat', 'unknown', 'trivial_zero', 'nonlinear', 'rounded_away'):
            setattr(self, k, getattr(self, k) + getattr(o, k))
        self.solver_s += o.solver_s
        self.samples.extend(o.samples[:max(0, 3 - len(self.samples))])

    def as_dict(self):
        return dict(queries=self.queries, unsat=self.unsat, sat=self.sat, unknown=self.unknown,
                    trivial_zero=self.trivial_zero, nonlinear=self.nonlinear, rounded_away=self.rounded_away, solver_s=round(self.solver_s, 3))


class Solver:
    """one incremental z3 solver per configuration; atoms get boxes on first use"""

    def __init__(self, timeout_ms=60000, default_box=(Fraction(-1), Fraction(1)), stats=None, nl_timeout_ms=10000):
        self.s = z3.Solver()
        self.s.set('timeout', timeout_ms)
        self.timeout_ms = timeout_ms; self.nl_timeout_ms = nl_timeout_ms
        self.vars = {}
        self.box = {}
        self.guess_first = True
        self.candidate_scales = None
        self._last_guess = None
        self._guess_sentinel = z3.BoolVal(True)
        self.default_box = default_box
        self.stats = stats or Stats()
        self.defs_emitted = set()
        self.keep_sample = True
        self.path = []

    def add_path(self, taken):
        """assert the path condition [(cond, decision)] of the current symbolic run (base scope)"""
        self.path = list(taken)
        for c, dec in taken:
            for a in _cond_atoms(c):
                self._ensure_atom(a)
            t = self.cond_term(c)
            self.s.add(t if dec else z3.Not(t))

    def _ensure_atom(self, a):
        todo = [a]; seen = set()
        while todo:
            x = todo.pop()
            if x in seen:
                continue
            seen.add(x)
            self.var(x)
            k = P.ATOMS.kind[x]
            if k in ('sqrt', 'inv', 'abs', 'opq', 'lin'):
                todo.extend(P.ATOMS.info[x].atoms())
            elif k == 'ite':
                c, p, q = P.ATOMS.info[x]
                todo.extend(p.atoms()); todo.extend(q.atoms()); todo.extend(_cond_atoms(c))

    # ---- interval reasoning about value selection -----------------------------------------------------------------
    def _ival_atom(self, a, memo):
        if a in memo:
            return memo[a]
        b = self.bound(a)
        kind = P.ATOMS.kind[a]
        if b is None and kind in ('sqrt', 'inv', 'lin'):
            try:
                self.auto_bounds([a])
            except Exception:
                pass
            b = self.box.get(a)
        if b is None and kind in ('opq', 'lin'):
            b = self._ival(P.ATOMS.info[a], memo)
        if b is None and kind == 'abs':
            q = self._ival(P.ATOMS.info[a], memo)
            if q is not None:
                lo = Fraction(0) if q[0] <= 0 <= q[1] else min(abs(q[0]), abs(q[1]))
                b = (lo, max(abs(q[0]), abs(q[1])))
        if b is None and kind == 'ite':
            c, u, v = P.ATOMS.info[a]
            dec = self._cond_decided(c, memo)
            iu = self._ival(u, memo); iv = self._ival(v, memo)
            if dec is True:
                b = iu
            elif dec is False:
                b = iv
            elif iu is not None and iv is not None:
                b = (min(iu[0], iv[0]), max(iu[1], iv[1]))
        if b is not None and (b[0] is None or b[1] is None):
            b = None
        memo[a] = b
        return b

    def _ival(self, p, memo):
        """(lo, hi) enclosure of a polynomial over the atom boxes, or None"""
        lo = hi = Fraction(0)
        for k, c in p.t.items():
            mlo = mhi = Fraction(c)
            for a in k:
                b = self._ival_atom(a, memo)
                if b is None:
                    return None
                cands = [mlo * b[0], mlo * b[1], mhi * b[0], mhi * b[1]]
                mlo, mhi = min(cands), max(cands)
            lo += mlo; hi += mhi
        return (lo, hi)

    def _cond_decided(self, c, memo):
        if isinstance(c, bool):
            return c
        if c.op == 'not':
            r = self._cond_decided(c.a, memo)
            return None if r is None else (not r)
        if c.op in ('and', 'or'):
            x = self._cond_decided(c.a, memo); y = self._cond_decided(c.b, memo)
            if c.op == 'and':
                return False if (x is False or y is False) else (True if (x is True and y is True) else None)
            return True if (x is True or y is True) else (False if (x is False and y is False) else None)
        iv = self._ival(c.a - c.b, memo)
        if iv is None:
            return None
        lo, hi = iv
        if c.op == 'gt':
            return True if lo > 0 else (False if hi <= 0 else None)
        if c.op == 'ge':
            return True if lo >= 0 else (False if hi < 0 else None)
        if c.op == 'lt':
            return True if hi < 0 else (False if lo >= 0 else None)
        if c.op == 'le':
            return True if hi <= 0 else (False if lo > 0 else None)
        if c.op == 'ne':
            return True if (lo > 0 or hi < 0) else None
        if c.op == 'eq':
            return False if (lo > 0 or hi < 0) else None
        return None

    def resolve_selection(self, p):
        """replace value-selection atoms (ite / max / min / clamp / abs) whose outcome is decided by the interval bounds of the
        atoms by the selected branch (exact rewriting: sound for sat and unsat); defined atoms over them are rebuilt"""
        memo_iv = {}
        memo = {}

        def rw(q):
            mapping = None
            for a in q.atoms():
                r = rw_atom(a)
                if r is not None:
                    if mapping is None:
                        mapping = {}
                    mapping[a] = r
            return q.subst(mapping) if mapping else q

        def rw_atom(a):
            if a in memo:
                return memo[a]
            memo[a] = None
            kind = P.ATOMS.kind[a]; info = P.ATOMS.info[a]
            out = None
            if kind == 'ite':
                c, u, v = info
                dec = self._cond_decided(c, memo_iv)
                if dec is True:
                    out = rw(u)
                elif dec is False:
                    out = rw(v)
            elif kind == 'abs':
                iv = self._ival(info, memo_iv)
                if iv is not None and iv[0] >= 0:
                    out = rw(info)
                elif iv is not None and iv[1] <= 0:
                    out = rw(info) * Fraction(-1)
            elif kind in ('inv', 'sqrt'):
                q2 = rw(info)
                if q2 is not info:
                    out = P.inv(q2) if kind == 'inv' else P.sqrt(q2)
            elif kind in ('lin', 'opq'):
                q2 = rw(info)
                if q2 is not info:
                    out = q2
            memo[a] = out
            return out
        return rw(p)

    # ---- witnesses by evaluation ------------------------------------------------------------------------------
    def _free_atoms(self):
        return sorted(a for a in self.vars if P.ATOMS.kind[a] in ('in', 'cot', 'par'))

    def candidate_models(self, atoms=None):
        """a few canonical dyadic points of the box (constant, alternating, one-hot, ramp); used to find witnesses of
        satisfiable queries under non-linear path conditions by plain evaluation before the solver is asked"""
        atoms = list(atoms if atoms is not None else self._free_atoms())
        n = len(atoms)
        if not n:
            return
        H = Fraction(1, 2)
        pats = [lambda i: Fraction(1), lambda i: Fraction(-1), lambda i: H, lambda i: Fraction(1) if i % 2 == 0 else Fraction(-1),
                lambda i: Fraction(1) if i == 0 else Fraction(0), lambda i: Fraction(1) if i % 2 == 0 else H,
                lambda i: Fraction(1) if i < n // 2 else Fraction(-1), lambda i: Fraction((i % 5) - 2, 2), lambda i: Fraction(0),
                lambda i: Fraction(1) if i == n - 1 else H]
        for sc in (self.candidate_scales or (Fraction(1),)):
            for f in pats:
                m = {}
                for i, a in enumerate(atoms):
                    v = f(i)
                    if P.ATOMS.kind[a] == 'in':
                        v = v * sc                  # small inputs expose fixed absolute thresholds; cotangents / parameters keep their size
                    lo, hi = self.bound(a) or (None, None)
                    if (lo is not None and v < lo) or (hi is not None and v > hi):
                        # scale the pattern into the box
                        r = min(abs(lo) if lo is not None else 1, abs(hi) if hi is not None else 1)
                        v = v * r
                    m[a] = v
                yield m

    def _on_path(self, env, margin=1e-9):
        for c, dec in self.path:
            try:
                if bool(P.cond_evalf(c, env)) != dec:
                    return False
                if hasattr(c, 'a') and hasattr(c, 'b') and c.op in ('lt', 'le', 'gt', 'ge', 'ne') and not isinstance(c.a, P.Cond):
                    if abs(c.a.evalf(env) - c.b.evalf(env)) <= margin:      # too close to the branch point for a float replay
                        return False
            except (KeyError, AttributeError, ZeroDivisionError, OverflowError):
                return False
        return True

    def guess(self, d=None, tau=None):
        """a canonical point on the current path (and, if d is given, with |d| > 2 tau there); None if none of them qualifies"""
        for m in self.candidate_models():
            env = P.AtomEnv()
            for a, v in m.items():
                env[a] = float(v)
            if not self._on_path(env):
                continue
            if d is not None:
                try:
                    val = d.evalf(env)
                except (KeyError, ZeroDivisionError, OverflowError):
                    continue
                if not (abs(val) > 2 * float(tau)) or val != val:
                    continue
            return m
        return None

    def nice_model(self, extra, atoms, grid=(-1, Fraction(-1, 2), 0, Fraction(1, 2), 1)):
        """a model of the base assertions + extra in which the given atoms take values on a coarse dyadic grid
        (so that the floating-point replay evaluates data-dependent branches exactly as the rational model does)"""
        if extra is self._guess_sentinel and self._last_guess is not None:
            return dict(self._last_guess)        # the last sat verdict was a witness found by evaluation: already dyadic and on the path
        self.s.push()
        try:
            self.s.add(extra)
            for a in atoms:
                v = self.var(a)
                self.s.add(z3.Or([v == z3.RealVal(g) for g in grid]))
            self.s.set('timeout', min(self.timeout_ms, 20000))
            try:
                if str(self.s.check()) != 'sat':
                    return None
                m = self.s.model()
                return {a: _z3_to_frac(m.eval(v, model_completion=True)) for a, v in self.vars.items()}
            except z3.Z3Exception:
                return None          # (non-linear path conditions: the solver gave up) - no dyadic witness, never a verdict
        finally:
            self.s.pop()

    def set_box(self, atom, lo, hi):
        self.box[atom] = (Fraction(lo), Fraction(hi))

    def var(self, a):
        v = self.vars.get(a)
        if v is None:
            v = z3.Real('a%d' % a)
            self.vars[a] = v
            kind = P.ATOMS.kind[a]
            if kind == 'free' and a not in self.box:
                eps = P.ATOMS.info[a][1]
                self.box[a] = (-eps, eps)
            lo, hi = self.box.get(a, self.default_box if kind in ('in', 'cot', 'par', 'free') else (None, None))
            if kind in ('sqrt',) and lo is None:
                lo = Fraction(0)
            if lo is not None:
                self.s.add(v >= z3.RealVal(lo))
            if hi is not None:
                self.s.add(v <= z3.RealVal(hi))
        return v

    def bound(self, a):
        """(lo, hi) magnitude box of an atom, None if unbounded"""
        kind = P.ATOMS.kind[a]
        if a in self.box:
            return self.box[a]
        if kind in ('in', 'cot', 'par'):
            return self.default_box
        if kind == 'free':
            eps = P.ATOMS.info[a][1]
            return (-eps, eps)
        return None

    def term(self, poly_scaled):
        """z3 term for {mono: int}"""
        parts = []
        for k, n in poly_scaled.items():
            t = z3.RealVal(n)
            for a in k:
                t = t * self.var(a)
            parts.append(t)
        if not parts:
            return z3.RealVal(0)
        return z3.Sum(parts) if len(parts) > 1 else parts[0]

    def emit_def(self, a):
        """defining constraints of a DEF atom (and, recursively, of the atoms it mentions)"""
        if a in self.defs_emitted:
            return
        self.defs_emitted.add(a)
        kind = P.ATOMS.kind[a]; info = P.ATOMS.info[a]
        v = self.var(a)
        if kind == 'sqrt':
            q = self.exact_term(info)
            self.s.add(v >= 0, v * v == q)
        elif kind == 'inv':
            q = self.exact_term(info)
            self.s.add(v * q == 1)
        elif kind == 'abs':
            q = self.exact_term(info)
            self.s.add(v == z3.If(q >= 0, q, -q))
        elif kind == 'ite':
            c, p, q = info
            self.s.add(v == z3.If(self.cond_term(c), self.exact_term(p), self.exact_term(q)))
        elif kind in ('opq', 'lin'):
            self.s.add(v == self.exact_term(info))

    def exact_term(self, p):
        parts = []
        for k, c in p.t.items():
            t = z3.RealVal(c)
            for a in k:
                if P.ATOMS.kind[a] in ('sqrt', 'inv', 'abs', 'ite', 'opq', 'lin'):
                    self.emit_def(a)
                t = t * self.var(a)
            parts.append(t)
        if not parts:
            return z3.RealVal(0)
        return z3.Sum(parts) if len(parts) > 1 else parts[0]

    def cond_term(self, c):
        if isinstance(c, bool):
            return z3.BoolVal(c)
        if c.op == 'and':
            return z3.And(self.cond_term(c.a), self.cond_term(c.b))
        if c.op == 'or':
            return z3.Or(self.cond_term(c.a), self.cond_term(c.b))
        if c.op == 'not':
            return z3.Not(self.cond_term(c.a))
        a = self.exact_term(c.a); b = self.exact_term(c.b)
        return {'lt': a < b, 'le': a <= b, 'gt': a > b, 'ge': a >= b, 'eq': a == b, 'ne': a != b}[c.op]

    def _round(self, d, grid=None):
        """-> ({mono: int} on the grid, eps) ; eps bounds the dropped mass over the boxes (None if unbounded)"""
        GRID = grid or globals()['GRID']
        scaled = {}
        eps = Fraction(0)
        for k, c in d.t.items():
            n = round(c * GRID)
            r = abs(c - Fraction(n, GRID))
            if r:
                m = Fraction(1)
                for a in k:
                    b = self.bound(a)
                    if b is None:
                        m = None
                        break
                    m *= max(abs(b[0]), abs(b[1]))
                if m is None:
                    return None, None
                eps += r * m
            if n:
                scaled[k] = n
        return scaled, eps

    def decide(self, d, tau, with_defs=False, label=None, grid_bits=None):
        """∃ atoms in boxes: |d| > tau ?   grid_bits: coarser rounding grid (Form P: what is left after rounding is either
        identically zero or has a coefficient the solver can exhibit quickly)"""
        st = self.stats
        if d.is_zero():
            st.trivial_zero += 1
            return 'unsat', None
        tau = Fraction(tau)
        GRID = (1 << grid_bits) if grid_bits else globals()['GRID']
        scaled, eps = self._round(d, GRID)
        if scaled is not None and not scaled and eps < tau:
            # everything was below the grid: |d| <= eps < tau on the boxes (rounding lemma), no solver call needed
            st.queries += 1; st.unsat += 1
            st.rounded_away += 1
            return 'unsat', None
        t0 = time.time()
        st.queries += 1
        lin = d.is_linear()
        if self.path and self.guess_first:
            got = self.guess(d, tau)
            if got is not None:
                st.sat += 1; st.solver_s += time.time() - t0
                self._last_query = self._guess_sentinel
                self._last_guess = got
                return 'sat', got
        if not lin:
            st.nonlinear += 1
            if not with_defs and not self.path and self._relax_unsat(d, tau):
                # sound linear relaxation: every monomial replaced by an independent variable ranging over its interval bound
                st.unsat += 1; st.rounded_away += 1
                st.solver_s += time.time() - t0
                return 'unsat', None
            if not with_defs and not self.path:
                # nlsat can spend unbounded time looking for a model of a dense multivariate polynomial: first let the
                # solver decide the query restricted to a few lines through the box (a model there is a model of the query)
                got = self._line_search(d, tau)
                if got is not None:
                    st.sat += 1
                    st.solver_s += time.time() - t0
                    return 'sat', got
        self._ensure_vars(d, with_defs)
        self.s.set('timeout', self.timeout_ms if lin else min(self.timeout_ms, self.nl_timeout_ms))
        self.s.push()
        defs_before = set(self.defs_emitted)      # definitions asserted inside this scope disappear with the pop below
        try:
            if scaled is None:
                term = self.exact_term(d)
                thr = z3.RealVal(tau)
            else:
                if tau - eps <= 0:
                    raise ValueError('tolerance %s not above rounding mass %s' % (float(tau), float(eps)))
                term = self.term(scaled)
                thr = z3.RealVal((tau - eps) * GRID)
            if with_defs:
                for a in d.atoms():
                    if P.ATOMS.kind[a] in ('sqrt', 'inv', 'abs', 'ite', 'opq'):
                        self.emit_def_scoped(a)
            else:
                for a in d.atoms():
                    self.var(a)
            self.s.add(z3.Or(term > thr, term < -thr))
            if self.keep_sample and len(st.samples) < 2:
                txt = self.s.to_smt2()
                st.samples.append({'label': label, 'smt2_head': txt[:1500], 'smt2_bytes': len(txt), '_full': txt if len(txt) < 300000 else None})
            r = self.s.check()
            rs = str(r)
            if rs == 'unknown' and lin:
                # a linear query that timed out (loaded machine): once more with five times the budget
                self.s.set('timeout', self.timeout_ms * 5)
                r = self.s.check()
                rs = str(r)
                st.retried = getattr(st, 'retried', 0) + 1
            if self.keep_sample and st.samples and st.samples[-1].get('label') == label and 'z3' not in st.samples[-1]:
                st.samples[-1]['z3'] = rs
            model = None
            if rs == 'sat':
                st.sat += 1
                m = self.s.model()
                model = {}
                for a, v in self.vars.items():
                    val = m.eval(v, model_completion=True)
                    model[a] = _z3_to_frac(val)
                if self.path:
                    self._last_query = z3.Or(term > thr, term < -thr)
                    self._last_guess = None
            elif rs == 'unsat':
                st.unsat += 1
            else:
                st.unknown += 1
            return rs, model
        finally:
            self.s.pop()
            self.defs_emitted = defs_before
            st.solver_s += time.time() - t0

    def _ensure_vars(self, d, with_defs):
        # variables (and their box constraints) must be created outside any push scope
        todo = list(d.atoms()); seen = set()
        while todo:
            a = todo.pop()
            if a in seen:
                continue
            seen.add(a)
            self.var(a)
            if with_defs and P.ATOMS.kind[a] in ('sqrt', 'inv', 'abs', 'opq', 'lin'):
                todo.extend(P.ATOMS.info[a].atoms())
            elif with_defs and P.ATOMS.kind[a] == 'ite':
                c, p, q = P.ATOMS.info[a]
                todo.extend(p.atoms()); todo.extend(q.atoms()); todo.extend(_cond_atoms(c))

    def auto_bounds(self, atoms, floor=None):
        """interval bounds for sqrt / inv atoms from the boxes of the atoms they are defined over.
        floor: lower bound of every sqrt atom (e.g. the magnitude bias b, justified by r = sqrt(sum of squares + b^2))"""
        if floor is not None:
            self.sqrt_floor = Fraction(floor)
        floor = getattr(self, 'sqrt_floor', None)

        def ub(p):
            s = Fraction(0)
            for k, c in p.t.items():
                m = abs(c)
                for a in k:
                    b = self.bound(a)
                    if b is None:
                        b = bnd(a)
                    if b is None:
                        return None
                    m *= max(abs(b[0]), abs(b[1]))
                s += m
            return s

        def bnd(a):
            if a in self.box:
                return self.box[a]
            kind = P.ATOMS.kind[a]
            if kind == 'sqrt':
                u = ub(P.ATOMS.info[a])
                if u is None:
                    return None
                import math
                hi = Fraction(math.isqrt(int(u * 10 ** 12)) + 1, 10 ** 6)
                self.box[a] = (Fraction(floor) if floor is not None else Fraction(0), hi)
                return self.box[a]
            if kind == 'lin':
                u = ub(P.ATOMS.info[a])
                if u is None:
                    return None
                self.box[a] = (-u, u)
                return self.box[a]
            if kind == 'inv':
                q = P.ATOMS.info[a]
                x = q.single_atom()
                if x is not None and P.ATOMS.kind[x] == 'sqrt':
                    b = bnd(x)
                    if b is not None and b[0] > 0:
                        self.box[a] = (1 / b[1], 1 / b[0])
                        return self.box[a]
                return None
            return self.bound(a)
        for a in atoms:
            bnd(a)

    def decide_amplified(self, d, tau, factors=(10 ** 3, 10 ** 6, 10 ** 8), **kw):
        """decide; on sat, look for a witness with a larger discrepancy (convincing replay)"""
        r, model = self.decide(d, tau, **kw)
        if r != 'sat':
            return r, model
        for f in factors:
            st = self.stats
            snap = (st.queries, st.sat, st.unsat, st.unknown, st.nonlinear)
            r2, m2 = self.decide(d, Fraction(tau) * f, **kw)
            st.queries, st.sat, st.unsat, st.unknown, st.nonlinear = snap
            if r2 == 'sat':
                model = m2
            else:
                break
        return 'sat', model

    def _relax_unsat(self, d, tau):
        """monomial-wise interval bound of |d| over the boxes, in exact rational arithmetic (the same principle as the rounding
        lemma, applied to whole monomials); the final comparison is discharged by z3 as a ground assertion.
        True => |d| <= tau on the boxes."""
        U = Fraction(0)
        for k, c in d.t.items():
            m_ = abs(c)
            for a in k:
                b = self.bound(a)
                if b is None or b[0] is None or b[1] is None:
                    return False
                m_ *= max(abs(b[0]), abs(b[1]))
            U += m_
        sv = z3.Solver()
        sv.add(z3.RealVal(U) > z3.RealVal(Fraction(tau)))
        return str(sv.check()) == 'unsat'

    def _line_search(self, d, tau, tries=6):
        import random
        rnd = random.Random(12345)
        atoms = sorted(d.atoms())
        boxes = {}
        for a in atoms:
            b = self.bound(a)
            if b is None or b[0] is None or b[1] is None:
                return None
            boxes[a] = b
        tvar = P.ATOMS.new('free', ('line', Fraction(1)))
        for k in range(tries):
            mapping = {}
            for a in atoms:
                lo, hi = boxes[a]
                sgn = rnd.choice((-1, 1)) if k else 1
                off = Fraction(rnd.randint(-3, 3), 8) if k > 1 else Fraction(0)
                mid = (lo + hi) / 2; half = (hi - lo) / 2
                # affine map of t in [-1,1] into the atom's box
                mapping[a] = Poly.const(mid + half * off * Fraction(1, 2)) + Poly.var(tvar) * (half * sgn * Fraction(1, 2) if k > 1 else half * sgn)
            u = d.subst(mapping)
            sv = z3.Solver(); sv.set('timeout', 3000)
            t = z3.Real('t')
            sv.add(t >= -1, t <= 1)
            parts = []
            for mono, c in u.t.items():
                term = z3.RealVal(c)
                for _ in mono:
                    term = term * t
                parts.append(term)
            e = z3.Sum(parts) if parts else z3.RealVal(0)
            sv.add(z3.Or(e > z3.RealVal(Fraction(tau)), e < -z3.RealVal(Fraction(tau))))
            if str(sv.check()) == 'sat':
                tv = _z3_to_frac(sv.model().eval(t, model_completion=True))
                return {a: mapping[a].evalq({tvar: tv}) for a in atoms}
        return None

    def emit_def_scoped(self, a):
        # definitions are added inside the current push scope; forget them afterwards
        saved = set(self.defs_emitted)
        self.emit_def(a)
        self.defs_emitted = saved

    def check_box(self):
        """the box constraints alone must be satisfiable (vacuity guard)"""
        return str(self.s.check()) == 'sat'


def _z3_to_frac(v):
    if z3.is_rational_value(v):
        return Fraction(v.numerator_as_long(), v.denominator_as_long())
    if z3.is_algebraic_value(v):
        a = v.approx(30)
        return Fraction(a.numerator_as_long(), a.denominator_as_long())
    try:
        return Fraction(str(v))
    except Exception:
        return Fraction(0)


def _cond_atoms(c):
    if isinstance(c, bool):
        return []
    if c.op in ('and', 'or'):
        return _cond_atoms(c.a) + _cond_atoms(c.b)
    if c.op == 'not':
        return _cond_atoms(c.a)
    return list(c.a.atoms()) + list(c.b.atoms())


def feasible(taken, timeout_ms=5000):
    """is the conjunction of (cond, decision) pairs satisfiable over the atom boxes? (unknown counts as feasible)"""
    sv = Solver(timeout_ms=timeout_ms, stats=Stats())
    sv.keep_sample = False
    sv.add_path(taken)
    return str(sv.s.check()) != 'unsat'


def cvc5_verdict(smt2_text, timeout_ms=20000):
    """second opinion on a dumped query (cvc5 wheel); returns 'sat' | 'unsat' | 'unknown' | 'error: ...'"""
    try:
        import cvc5
        tm = cvc5.TermManager() if hasattr(cvc5, 'TermManager') else None
        slv = cvc5.Solver(tm) if tm is not None else cvc5.Solver()
        slv.setOption('tlimit-per', str(timeout_ms))
        parser = cvc5.InputParser(slv)
        parser.setStringInput(cvc5.InputLanguage.SMT_LIB_2_6, '(set-logic ALL)\n' + smt2_text, 'q')
        sm = parser.getSymbolManager()
        res = None
        while True:
            cmd = parser.nextCommand()
            if cmd.isNull():
                break
            out = cmd.invoke(slv, sm)
            o = str(out).strip()
            if o in ('sat', 'unsat', 'unknown'):
                res = o
        return res or 'unknown'
    except Exception as e:  # noqa
        return 'error: %s' % (str(e)[:120],)


def _cond_polys(c):
    if isinstance(c, bool):
        return []
    if c.op in ('and', 'or'):
        return _cond_polys(c.a) + _cond_polys(c.b)
    if c.op == 'not':
        return _cond_polys(c.a)
    return [c.a, c.b]


PIECEWISE_SCALES = (Fraction(1, 2 ** 60), Fraction(1, 2 ** 30), Fraction(1))     # smallest first: fixed absolute thresholds show up there at once


def has_selection(d):
    """does the polynomial mention value-selection atoms (abs / ite), directly or through defined atoms?"""
    todo = list(d.atoms()); seen = set()
    while todo:
        a = todo.pop()
        if a in seen:
            continue
        seen.add(a)
        k = P.ATOMS.kind[a]
        if k in ('abs', 'ite'):
            return True
        if k in ('lin', 'opq', 'sqrt', 'inv'):
            todo.extend(P.ATOMS.info[a].atoms())
    return False


class PiecewiseDecider:
    """|d| <= tau * s on the box of radius s, for s in PIECEWISE_SCALES, with the defining constraints of abs/ite atoms: a
    homogeneous (linear) specification is compared with an implementation that may select values by magnitude, so a fixed
    absolute threshold inside the implementation shows up once the free variables are scaled down."""

    def __init__(self, stats, timeout_ms=60000, scales=PIECEWISE_SCALES):
        self.stats = stats; self.timeout_ms = timeout_ms; self.scales = scales; self.solvers = {}

    def decide(self, d, tau, label=None):
        worst = 'unsat'
        for s_ in self.scales:
            sv = self.solvers.get(s_)
            if sv is None:
                sv = self.solvers[s_] = Solver(stats=self.stats, timeout_ms=self.timeout_ms, default_box=(-s_, s_))
            # a witness by plain evaluation first (canonical points scaled into the box): fixed thresholds give one at once
            sv._ensure_vars(d, True)
            g = sv.guess(d, Fraction(tau) * s_)
            if g is not None:
                self.stats.queries += 1; self.stats.sat += 1
                return 'sat', g, s_
            v, m = sv.decide(d, Fraction(tau) * s_, with_defs=True, label='%s@%s' % (label, s_))
            if v == 'sat':
                return v, m, s_
            if v != 'unsat':
                worst = v
        return worst, None, None
