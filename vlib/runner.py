"""Check driver: enumerates configurations, runs one worker task per configuration, aggregates,
matches known findings, writes evidence and replay files, prints VIOLATION / KNOWN-FINDING lines.

exit codes: 0 held on everything explored; 1 unlisted reproduced violation; 2 harness error
(the encoding disagreed with real torch / a counterexample did not reproduce); 3 inconclusive.
"""
import argparse
import importlib
import json
import multiprocessing as mp
import os
import sys
import time
import traceback

ROOT = os.path.dirname(os.path.dirname(os.path.abspath(__file__)))
sys.path.insert(0, ROOT)
os.environ.setdefault('PYTHONDONTWRITEBYTECODE', '1')
sys.dont_write_bytecode = True

_H = None


def _init(pid, repo):
    global _H
    import warnings, logging
    warnings.filterwarnings('ignore')
    logging.disable(logging.WARNING)
    os.environ['OMP_NUM_THREADS'] = '1'
    os.environ['MKL_NUM_THREADS'] = '1'
    import symtorch
    os.environ['VERIF_REPO_DIR'] = repo
    symtorch.load(real=True, repo=repo)
    _H = importlib.import_module('harness.' + pid)


def _work(cfg):
    from vlib.core import Result
    t0 = time.time()
    import signal

    class _Budget(BaseException):
        pass

    def _alarm(signum, frame):
        raise _Budget()
    budget = int(os.environ.get('VERIF_CONFIG_BUDGET_S', '0') or 0) or (3600 if os.environ.get('VERIF_TIER_EFFECTIVE') == 'thorough' else 1200)
    try:
        signal.signal(signal.SIGALRM, _alarm)
        signal.alarm(budget)
    except Exception:
        pass
    traced = None
    _work.count = getattr(_work, 'count', 0) + 1
    if _work.count % 20 == 1:
        # every 20th configuration of a worker runs under a profiler hook that records which functions of the
        # repository were actually entered (evidence: functions_encoded)
        traced = set()
        repo_dir = os.path.join(os.environ.get('VERIF_REPO_DIR', '/repo'), 'pytorch_wavelets')

        def _prof(frame, event, arg):
            if event == 'call':
                fn = frame.f_code.co_filename
                if fn.startswith(repo_dir):
                    traced.add(fn[len(repo_dir) - len('pytorch_wavelets'):-3].replace('/', '.') + '.' + getattr(frame.f_code, 'co_qualname', frame.f_code.co_name))
        sys.setprofile(_prof)
    try:
        try:
            r = _H.run_config(cfg)
        finally:
            if traced is not None:
                sys.setprofile(None)
        if traced:
            r.funcs = sorted(set(r.funcs) | traced)
        d = r.to_dict()
    except _Budget:
        r = Result(cfg)
        r.status = 'inconclusive'
        r.notes.append('per-configuration time budget of %d s exhausted' % budget)
        d = r.to_dict()
    except BaseException as e:  # noqa  (a worker must always answer)
        if isinstance(e, (KeyboardInterrupt, SystemExit)):
            raise
        r = Result(cfg)
        r.status = 'error'
        r.trace = traceback.format_exc()[-3000:]
        d = r.to_dict()
    finally:
        try:
            signal.alarm(0)
        except Exception:
            pass
    d['wall_s'] = round(time.time() - t0, 3)
    return d


def load_known(pid):
    p = os.path.join(ROOT, 'known_findings.json')
    if not os.path.exists(p):
        return []
    with open(p) as f:
        data = json.load(f)
    return [k for k in data.get('findings', []) if k.get('property') == pid]


def match_known(known, facts):
    for k in known:
        if k.get('status') != 'known':
            continue
        ok = True
        for key, want in k.get('where', {}).items():
            have = facts.get(key, None)
            if isinstance(want, list):
                if have not in want:
                    ok = False
            elif have != want:
                ok = False
            if not ok:
                break
        if ok:
            return k
    return None


def main(argv=None):
    ap = argparse.ArgumentParser()
    ap.add_argument('pid')
    ap.add_argument('--tier', default=os.environ.get('VERIF_TIER', 'quick'), choices=['quick', 'thorough'])
    ap.add_argument('--replay')
    ap.add_argument('--jobs', type=int, default=int(os.environ.get('VERIF_JOBS', '0')) or (os.cpu_count() or 4))
    ap.add_argument('--only', default=None, help='substring filter on the configuration JSON')
    ap.add_argument('--limit', type=int, default=0)
    ap.add_argument('--repo', default=os.environ.get('VERIF_REPO', '/repo'))
    ap.add_argument('--no-evidence', action='store_true')
    args = ap.parse_args(argv)
    pid = args.pid
    os.environ['VERIF_TIER_EFFECTIVE'] = args.tier
    seed = int(os.environ.get('VERIF_SEED', '0') or 0)
    t_start = time.time()

    if args.replay:
        _init(pid, args.repo)
        with open(args.replay) as f:
            payload = json.load(f)
        rep = _H.replay(payload)
        print(json.dumps(rep, indent=1, default=str))
        if rep.get('reproduced'):
            print('VIOLATION property=%s replay=%s' % (pid, args.replay))
            return 1
        print('not reproduced')
        return 0

    H = importlib.import_module('harness.' + pid)
    cfgs = H.configs(args.tier, seed)
    if args.only:
        cfgs = [c for c in cfgs if args.only in json.dumps(c, sort_keys=True)]
    if args.limit:
        cfgs = cfgs[:args.limit]
    known = load_known(pid)
    ctx = mp.get_context('fork')
    results = []
    jobs = max(1, min(args.jobs, len(cfgs)))
    # real torch + both copies of the repository are imported once, single-threaded, before forking
    _init(pid, args.repo)
    per_task = 1 if getattr(H, 'META', {}).get('fresh_process_per_config') else None
    with ctx.Pool(jobs, maxtasksperchild=per_task) as pool:
        for d in pool.imap_unordered(_work, cfgs, chunksize=1):
            results.append(d)

    # ---- aggregate --------------------------------------------------------------------
    agg = dict(queries=0, unsat=0, sat=0, unknown=0, trivial_zero=0, nonlinear=0, rounded_away=0, solver_s=0.0)
    symexec_s = 0.0
    status_count = {}
    viol_new = []
    viol_known = {}
    harness_errors = []
    inconclusive = []
    funcs = set()
    samples = []
    nontrivial = 0
    validated = 0
    max_dev = 0.0
    paths = 0
    for d in results:
        status_count[d['status']] = status_count.get(d['status'], 0) + 1
        if d.get('stats'):
            for k in agg:
                agg[k] += d['stats'].get(k, 0)
        symexec_s += d.get('symexec_s', 0)
        funcs.update(d.get('funcs') or [])
        paths += d.get('paths', 1)
        if d.get('nontrivial'):
            nontrivial += 1
        if d.get('validated') is not None:
            validated += 1
            max_dev = max(max_dev, d['validated'])
        if len(samples) < 4 and d.get('samples'):
            samples.append({'config': d['cfg'], 'status': d['status'], 'query': d['samples'][0]})
        if d['status'] == 'error':
            harness_errors.append(d)
        elif d['status'] == 'inconclusive':
            inconclusive.append(d)
        for v in d.get('violations', []):
            if not v.get('reproduced') and v.get('path_dependent'):
                d2 = dict(d); d2['notes'] = ['counterexample on a data-dependent path did not reproduce in floating point: %s' % v.get('what')]
                inconclusive.append(d2)
                continue
            if not v.get('reproduced'):
                harness_errors.append({'cfg': d['cfg'], 'trace': 'counterexample did not reproduce on the real library: %s' % v.get('what')})
                continue
            k = match_known(known, v.get('facts', {}))
            if k is not None:
                viol_known.setdefault(k['id'], [k, 0])[1] += 1
            else:
                viol_new.append((d['cfg'], v))
    cross = []
    for s_ in samples:
        q = s_.get('query') or {}
        full = q.pop('_full', None)
        if full and q.get('z3') in ('sat', 'unsat') and len(cross) < 3:
            from vlib.smt import cvc5_verdict
            v = cvc5_verdict(full)
            cross.append({'label': q.get('label'), 'z3': q.get('z3'), 'cvc5': v})
            if v in ('sat', 'unsat') and v != q.get('z3'):
                harness_errors.append({'cfg': s_['config'], 'trace': 'z3 (%s) and cvc5 (%s) disagree on the dumped query %s' % (q.get('z3'), v, q.get('label'))})
    for d in results:
        for q in d.get('samples') or []:
            q.pop('_full', None)
    if not samples:
        samples = [{'config': d['cfg'], 'status': d['status']} for d in results[:3]]

    # ---- report -----------------------------------------------------------------------
    out_lines = []
    for kid, (k, n) in sorted(viol_known.items()):
        out_lines.append('KNOWN-FINDING: property=%s %s: %s (%d configuration-level occurrences in this run)' % (pid, kid, k['what'], n))
    rdir = os.path.join(ROOT, 'replays', pid)
    shown = 0
    from vlib.core import cfg_hash, to_jsonable
    for cfg, v in viol_new:
        os.makedirs(rdir, exist_ok=True)
        payload = {'property': pid, 'config': cfg, 'what': v.get('what'), 'facts': v.get('facts'), 'replay': v.get('replay')}
        path = os.path.join(rdir, cfg_hash([cfg, v.get('what')]) + '.json')
        with open(path, 'w') as f:
            json.dump(to_jsonable(payload), f)
        if shown < 25:
            out_lines.append('VIOLATION property=%s replay=%s' % (pid, path))
            out_lines.append('  what: %s | config: %s' % (v.get('what'), json.dumps(cfg, sort_keys=True)))
            shown += 1
    if len(viol_new) > shown:
        out_lines.append('... %d more violations (replay files written under %s)' % (len(viol_new) - shown, rdir))
    for d in harness_errors[:10]:
        out_lines.append('HARNESS-ERROR property=%s config=%s\n%s' % (pid, json.dumps(d['cfg'], sort_keys=True), (d.get('trace') or '')[-1500:]))
    for d in inconclusive[:10]:
        out_lines.append('INCONCLUSIVE property=%s config=%s notes=%s' % (pid, json.dumps(d['cfg'], sort_keys=True), d.get('notes')))
    wall = time.time() - t_start
    summary = ('%s tier=%s seed=%d configs=%d %s | queries=%d unsat=%d sat=%d unknown=%d trivial_zero=%d | '
               'symexec %.1fs solver %.1fs wall %.1fs | validated-vs-real-torch %d (max dev %.2e)'
               % (pid, args.tier, seed, len(results), status_count, agg['queries'], agg['unsat'], agg['sat'], agg['unknown'],
                  agg['trivial_zero'], symexec_s, agg['solver_s'], wall, validated, max_dev))
    print(summary)
    for l in out_lines:
        print(l)

    if viol_new:
        code = 1
    elif harness_errors:
        code = 2
    elif inconclusive:
        code = 3
    else:
        code = 0

    if not args.no_evidence and not args.only and not args.limit:
        meta = H.META
        ev = {
            'property_id': pid, 'tier': args.tier, 'seed': seed, 'level': 'other',
            'coverage': {
                'explanation': 'bounded symbolic verification: the real source of /repo is executed on a symbolic tensor '
                               'library (exact polynomials over input atoms); each property instance is an SMT query '
                               '(z3) over those expressions, valid for every real-valued input of the configuration; '
                               'sat answers are replayed on real torch before being reported. ' + meta.get('explanation', ''),
                'evaluations': len(results),
                'distinct_nontrivial': nontrivial,
                'rule': meta.get('rule', 'one evaluation = one configuration executed symbolically and decided; non-trivial = the configuration produced at least one '
                                         'non-constant symbolic expression that was compared (residuals that vanish identically after normalisation are counted under '
                                         'trivial_zero, all others are sent to z3)'),
                'samples': to_jsonable(samples),
                'obligations': agg['queries'] + agg['trivial_zero'],
                'discharged': agg['unsat'] + agg['trivial_zero'],
                'queries_posed': agg['queries'], 'unsat': agg['unsat'], 'sat': agg['sat'], 'unknown': agg['unknown'],
                'trivial_zero': agg['trivial_zero'], 'nonlinear_queries': agg['nonlinear'],
                'decided_by_rounding_lemma_alone': agg['rounded_away'],
                'solver_s': round(agg['solver_s'], 2), 'symexec_s': round(symexec_s, 2),
                'paths_explored': paths,
                'functions_encoded': sorted(funcs) or meta.get('functions', []),
                'entry_points': meta.get('functions', []),
                'bounds': meta.get('bounds', {}).get(args.tier, meta.get('bounds')),
                'outside_bounds': meta.get('outside', ''),
                'engine_validation': {'configs_cross_checked_against_real_torch': validated, 'max_deviation': max_dev},
                'cross_solver_check': cross,
                'status_counts': status_count,
                'known_findings_hit': {k: n for k, (_, n) in viol_known.items()},
                'trusted_base': ['z3 5.1 (QF_LRA / QF_NRA)', 'symtorch agrees with real torch (checked per configuration on the whole operator / sample points)',
                                 'PyWavelets / dtcwt reference packages are the oracle where named', 'rounding lemma of vlib/smt.py'],
                'exhaustive': False,
            },
            'assumptions': meta.get('assumptions', []),
            'wall_s': round(wall, 2),
            'violations': len(viol_new),
        }
        os.makedirs(os.path.join(ROOT, 'evidence'), exist_ok=True)
        with open(os.path.join(ROOT, 'evidence', pid + '.json'), 'w') as f:
            json.dump(ev, f, indent=1, default=str)
    return code


if __name__ == '__main__':
    sys.exit(main())
