"""Generic decision procedure for 'implementation == reference' on linear entry points.

  in_specs : [(name, shape)]  symbolic input tensors; axis 0 is the batch axis B (same B for all)
  impl(pw, tensors) -> [(name, tensor-or-None)]   the real entry point, run with pw = symbolic copy or real copy
  ref(arrays)       -> [array-or-None]           the oracle on NumPy arrays (batch axis of any length)

Steps: symbolic run; real-torch run on the actual shape (outcome) and on the batched basis (whole
operator) -> engine validation; oracle rows from the batched basis (+ affinity check); one z3 query
per output element; canary; replay of every sat model on the real library and the real oracle.
"""
import time
import numpy as np
from fractions import Fraction
import symtorch
from symtorch import poly as P, tensor as T
from symtorch.poly import Poly
from vlib import core, smt


def _basis(in_specs):
    sizes = [int(np.prod(s)) for _, s in in_specs]
    n = sum(sizes)
    E = np.eye(n)
    B = in_specs[0][1][0]
    parts = []
    off = 0
    for (nm, s), sz in zip(in_specs, sizes):
        blk = E[:, off:off + sz].reshape((n,) + tuple(s)).reshape((n * B,) + tuple(s[1:]))
        parts.append(blk); off += sz
    return parts, n, B


def _unbatch(a, n, B):
    a = a.detach().numpy() if hasattr(a, 'detach') else np.asarray(a)
    a = a.reshape((n, B) + a.shape[1:])
    return np.moveaxis(a, 0, -1).reshape(-1, n)


def check_linear(res, cfg, facts, in_specs, impl, ref, **kw):
    """explores every feasible data-dependent path of the symbolic run (normally exactly one)"""
    return core.run_paths(res, lambda: _check_linear_path(res, cfg, facts, in_specs, impl, ref, **kw))


PIECEWISE_SCALES = (Fraction(1, 2 ** 60), Fraction(1, 2 ** 30), Fraction(1))     # smallest first: fixed absolute thresholds show up there at once


def _def_closure(p, seen):
    for a in p.atoms():
        if a in seen:
            continue
        seen.add(a)
        k = P.ATOMS.kind[a]
        if k in ('abs', 'lin', 'opq'):
            _def_closure(P.ATOMS.info[a], seen)
        elif k == 'ite':
            c, u, v = P.ATOMS.info[a]
            _def_closure(u, seen); _def_closure(v, seen)
            for q in smt._cond_polys(c):
                _def_closure(q, seen)


def _piecewise_ok(souts):
    """outputs are built from the inputs with +, scalar *, abs and value selection (torch.where / clamp on symbolic conditions) only"""
    seen = set()
    for _, t in souts:
        if t is None:
            continue
        for p in t.a.reshape(-1):
            if not p.is_linear():
                return False
            _def_closure(p, seen)
    return all(P.ATOMS.kind[a] in ('in', 'abs', 'ite', 'lin', 'opq', 'free') for a in seen)


def _check_piecewise(res, facts, ids, all_ids, souts, rows_all, scale, tau_rel, xs, r1, impl, ref, rpw, what, max_sat, timeout_ms):
    """the implementation selects values by comparing magnitudes (piecewise linear): it must still equal the linear reference,
    on the unit box AND on small boxes (the property quantifies over all reals and the reference is homogeneous, so a fixed
    absolute threshold inside the implementation shows up once the inputs are scaled down)"""
    envp = P.AtomEnv()
    for i, x in zip(ids, xs):
        for a, v in zip(i.reshape(-1), x.reshape(-1)):
            envp[int(a)] = float(v)
    dev = 0.0
    for (nm, t), (_, rr) in zip(souts, r1[1]):
        if t is None:
            continue
        sv = np.array([p.evalf(envp) for p in t.a.reshape(-1)])
        rv = rr.detach().numpy().reshape(-1)
        if sv.shape != rv.shape:
            res.status = 'error'; res.trace = 'shape of %s differs between symbolic and real run' % nm; return None
        if sv.size:
            dev = max(dev, float(np.abs(sv - rv).max()))
    res.validated = dev if res.validated is None else max(res.validated, dev)
    if dev > 1e-9 * scale:
        res.status = 'error'; res.trace = 'symbolic values deviate from real torch by %g (scale %g)' % (dev, scale); return None
    st = res.stats or smt.Stats()
    res.notes.append('piecewise-linear implementation: compared on boxes of radius %s' % [str(s_) for s_ in PIECEWISE_SCALES])
    names = [nm for nm, _ in souts]
    found = 0
    for s_ in PIECEWISE_SCALES:
        solver = smt.Solver(stats=st, timeout_ms=timeout_ms, default_box=(-s_, s_))
        tau = Fraction(tau_rel).limit_denominator(10 ** 15) * Fraction(scale) * s_
        for (nm, t), R in zip(souts, rows_all):
            if t is None:
                continue
            rows = core.ref_poly_rows(R, all_ids)
            for k, (p, r) in enumerate(zip(t.a.reshape(-1), rows)):
                d = p - r
                if not d.is_zero():
                    res.nontrivial = True
                solver._ensure_vars(d, True)
                model = solver.guess(d, tau)
                if model is not None:
                    st.queries += 1; st.sat += 1
                    v = 'sat'
                else:
                    v, model = solver.decide(d, tau, with_defs=True, label='%s[%d]@%s' % (nm, k, s_))
                if v == 'sat':
                    xv = [core.model_array(model, i) for i in ids]
                    rep = replay_values(impl, ref, xv, names.index(nm), k, float(tau), rpw)
                    res.violations.append(dict(what='%s %s[%d] differs from the reference by %.3g (tau %.3g) for inputs of magnitude <= %.3g' % (what, nm, k, rep['diff'], float(tau), float(s_)),
                                               facts=dict(facts, input_scale=float(s_)), replay=dict(kind='values', xs=[x.tolist() for x in xv], out=names.index(nm), k=int(k), tau=float(tau)),
                                               reproduced=rep['reproduced']))
                    found += 1
                elif v != 'unsat':
                    res.status = 'inconclusive'; res.notes.append('solver answered %s on %s[%d] (box %s)' % (v, nm, k, s_))
                if found >= max_sat:
                    break
            if found >= max_sat:
                break
        if found:
            break
    res.stats = st
    if res.violations:
        res.status = 'violation'
    return None


def _pc_point(ids, pc):
    """a dyadic point on the current path: list of arrays shaped like ids, or None"""
    import z3 as _z3
    ps = smt.Solver(stats=smt.Stats()); ps.keep_sample = False
    for i in ids:
        for a in i.reshape(-1):
            ps.var(int(a))
    ps.add_path(pc)
    m = ps.guess()
    if m is None:
        m = ps.nice_model(_z3.BoolVal(True), [a for a in ps.vars if P.ATOMS.kind[a] in ('in', 'cot', 'par')])
    if m is None:
        return None
    return [core.model_array(m, i) for i in ids]


def _check_linear_path(res, cfg, facts, in_specs, impl, ref, tau_rel=1e-9, allowed_raise=None, raise_is_skip=False,
                       validate_tol=1e-10, max_sat=3, timeout_ms=60000, what='output', real_pw=None, sym_pw=None, seed=1, oracle_offset=False):
    rt = symtorch.real_torch()
    rng = np.random.default_rng(seed)
    rpw = real_pw or symtorch.real()
    # ---- symbolic run ---------------------------------------------------------------------
    t0 = time.time()
    with symtorch.symbolic():
        spw = sym_pw or symtorch.sym()
        tens = []; ids = []
        for nm, s in in_specs:
            t, i = core.symin(tuple(s), name=nm)
            tens.append(t); ids.append(i)
        so = core.outcome(lambda: impl(spw, tens))
    res.symexec_s += time.time() - t0
    res.funcs = sorted(set(res.funcs) | T.STATE.funcs_entered)
    all_ids = np.concatenate([i.reshape(-1) for i in ids])
    pc = list(P.PATHS.taken)
    if pc:
        facts = dict(facts, path=[bool(d) for _, d in pc])
        what = what + ' [data-dependent path %s]' % facts['path']
    # ---- real run on the actual shape (outcome) ---------------------------------------------
    xs = [rng.uniform(-1, 1, size=s) for _, s in in_specs]
    if pc:
        env0 = P.AtomEnv()
        for i, x in zip(ids, xs):
            for a, v in zip(i.reshape(-1), x.reshape(-1)):
                env0[int(a)] = float(v)
        if not core.path_env_ok(env0):
            xs = _pc_point(ids, pc)
            if xs is None:
                res.notes.append('no dyadic point found on path %s; path skipped' % facts['path'])
                if res.status == 'held':
                    res.status = 'inconclusive'
                return None
    r1 = core.outcome(lambda: impl(rpw, [rt.tensor(x, dtype=rt.float64) for x in xs]))
    if so[0] == 'unsupported':
        res.status = 'inconclusive'; res.notes.append('symbolic engine: ' + so[1])
        return None
    if so[0] != r1[0] or (so[0] == 'raise' and so[1] != r1[1]):
        res.status = 'error'; res.trace = 'symbolic outcome %r differs from real torch outcome %r' % (core.brief(so), core.brief(r1))
        return None
    # ---- oracle -----------------------------------------------------------------------------
    parts, n, B = _basis(in_specs)
    if oracle_offset:
        # the reference package takes value-dependent shortcuts on sparse inputs (dtcwt's colifilt returns zeros when all
        # non-zeros sit in row 0): probe it with dense inputs u + e_i and subtract its response to u
        us = [rng.uniform(0.5, 1.5, size=s) for _, s in in_specs]

        def _ref_rows():
            shifted = [p + np.tile(u, (n,) + (1,) * (u.ndim - 1)) for p, u in zip(parts, us)]
            a = ref(shifted); b0 = ref(us)
            return [None if x is None else x - np.tile(y, (n,) + (1,) * (y.ndim - 1)) for x, y in zip(a, b0)]
        oo = core.outcome(_ref_rows)
    else:
        oo = core.outcome(lambda: ref(parts))
    if oo[0] != 'ok':
        res.status = 'skipped'; res.notes.append('oracle raised %s: %s' % (oo[1], oo[2][:100]))
        return None
    if so[0] == 'raise':
        if allowed_raise is not None and allowed_raise(so):
            res.notes.append('permitted raise: %s' % so[1]); res.nontrivial = True
            return None
        if raise_is_skip:
            res.status = 'skipped'; res.notes.append('entry point raises %s (outside the quantifier)' % so[1])
            return None
        res.status = 'violation'
        res.violations.append(dict(what='%s: raises %s (%s) where the reference returns' % (what, so[1], so[2][:100]), facts=facts,
                                   replay=dict(kind='raise'), reproduced=True))
        return None
    souts = so[1]
    refs = oo[1]
    # ---- structure ----------------------------------------------------------------------------
    if len(souts) != len(refs):
        res.status = 'violation'
        res.violations.append(dict(what='%s: %d outputs, reference has %d' % (what, len(souts), len(refs)), facts=facts,
                                   replay=dict(kind='shape'), reproduced=len(r1[1]) == len(souts)))
        return None
    for (nm, t), r, (_, rt1) in zip(souts, refs, r1[1]):
        gs = None if t is None else tuple(t.shape)
        es = None if r is None else (B,) + tuple(r.shape[1:])
        if gs != es:
            res.status = 'violation'
            rs = None if rt1 is None else tuple(rt1.shape)
            res.violations.append(dict(what='%s %s has shape %s, reference %s' % (what, nm, gs, es), facts=facts,
                                       replay=dict(kind='shape', name=nm), reproduced=rs == gs))
            return None
    # ---- never-written memory (torch.empty & co: arbitrary contents) must not reach a result ---------------
    hit = symtorch.uninit_atoms([p for _, t in souts if t is not None and t.a.dtype == object for p in t.a.reshape(-1)])
    if hit:
        with symtorch.poison_uninit():
            rp = core.outcome(lambda: impl(rpw, [rt.tensor(x, dtype=rt.float64) for x in xs]))
        bad = rp[0] == 'ok' and any(t is not None and not bool(rt.isfinite(t).all()) for _, t in rp[1])
        nm_ = [nm for nm, t in souts if t is not None and t.a.dtype == object and symtorch.uninit_atoms(list(t.a.reshape(-1)))]
        res.status = 'violation'
        res.violations.append(dict(what='%s %s depends on uninitialised memory (torch.empty / new_empty / empty_like contents, %d elements)' % (what, nm_[:3], len(hit)),
                                   facts=dict(facts, uninitialised=True), replay=dict(kind='uninit', xs=[x.tolist() for x in xs]), reproduced=bool(bad)))
        return None
    # ---- engine validation on the whole operator (single-path runs) or at a point on the path ------
    if pc:
        rb = ('ok', None)
    else:
        rb = core.outcome(lambda: impl(rpw, [rt.tensor(p, dtype=rt.float64) for p in parts]))
    if rb[0] != 'ok':
        res.status = 'error'; res.trace = 'real torch fails on the batched basis: %r' % (rb[:3],)
        return None
    scale = 1.0
    rows_all = []
    for r in refs:
        if r is None:
            rows_all.append(None); continue
        R = _unbatch(r, n, B)
        rows_all.append(R)
        if R.size:
            scale = max(scale, float(np.abs(R).sum(axis=1).max()))
    dev = 0.0
    if pc:
        envp = P.AtomEnv()
        for i, x in zip(ids, xs):
            for a, v in zip(i.reshape(-1), x.reshape(-1)):
                envp[int(a)] = float(v)
        for (nm, t), (_, rr) in zip(souts, r1[1]):
            if t is None:
                continue
            sv = np.array([p.evalf(envp) for p in t.a.reshape(-1)])
            rv = rr.detach().numpy().reshape(-1)
            if sv.shape != rv.shape:
                res.status = 'error'; res.trace = 'shape of %s differs between symbolic and real run' % nm; return None
            if sv.size:
                dev = max(dev, float(np.abs(sv - rv).max()))
    for (nm, t), (_, rr) in (zip(souts, rb[1]) if not pc else []):
        if t is None:
            continue
        try:
            M, c0 = core.lin_table(t.a, all_ids)
        except ValueError as e:
            if _piecewise_ok(souts):
                return _check_piecewise(res, facts, ids, all_ids, souts, rows_all, scale, tau_rel, xs, r1, impl, ref, rpw, what, max_sat, timeout_ms)
            res.status = 'inconclusive'; res.notes.append('output %s is not linear in the inputs: %s' % (nm, e))
            return None
        Rm = _unbatch(rr, n, B)
        if M.shape != Rm.shape:
            res.status = 'error'; res.trace = 'shape of %s differs between symbolic and real run' % nm
            return None
        if M.size:
            dev = max(dev, float(np.abs(M - Rm).max()), float(np.abs(c0).max()))
    if not pc and dev > validate_tol * scale:
        # the operator extracted from the batched basis run (batch = number of inputs) differs from the symbolic run on the actual
        # shape.  Either the engine is wrong, or the implementation treats batch sizes differently: compare at a point on the
        # actual shape, where both runs used the same batch size
        envp = P.AtomEnv()
        for i, x in zip(ids, xs):
            for a, v in zip(i.reshape(-1), x.reshape(-1)):
                envp[int(a)] = float(v)
        dev2 = 0.0
        for (nm, t), (_, rr) in zip(souts, r1[1]):
            if t is None:
                continue
            sv = np.array([p.evalf(envp) for p in t.a.reshape(-1)])
            rv = rr.detach().numpy().reshape(-1)
            dev2 = max(dev2, float(np.abs(sv - rv).max()) if sv.size and sv.shape == rv.shape else float('inf'))
        if dev2 <= 1e-9 * scale:
            res.notes.append('the implementation depends on the batch size (batched basis run deviates by %.3g, actual shape agrees to %.3g): engine validated at a point on the actual shape' % (dev, dev2))
            dev = dev2
    res.validated = dev if res.validated is None else max(res.validated, dev)
    if dev > max(validate_tol, 1e-9 if pc else 0) * scale:
        res.status = 'error'; res.trace = 'symbolic operator deviates from real torch by %g (scale %g)' % (dev, scale)
        return None
    # oracle affinity: ref(x) == rows @ x, ref(0) == 0
    xs = [rng.uniform(-1, 1, size=s_) for _, s_ in in_specs] if pc else xs
    ox = ref(xs); oz = ref([np.zeros_like(x) for x in xs])
    xflat = np.concatenate([x.reshape(-1) for x in xs])
    for R, a, z in zip(rows_all, ox, oz):
        if R is None:
            continue
        if R.size and (np.abs(R @ xflat - np.asarray(a).reshape(-1)).max() > 1e-8 * scale or np.abs(z).max() > 1e-12):
            res.status = 'error'; res.trace = 'oracle is not a linear map of its input'
            return None
    # ---- queries ------------------------------------------------------------------------------
    tau = Fraction(tau_rel).limit_denominator(10 ** 15) * Fraction(scale)
    st = res.stats or smt.Stats()
    solver = smt.Solver(stats=st, timeout_ms=timeout_ms)
    if pc:
        for a in all_ids:
            solver.var(int(a))
        solver.add_path(pc)
    sats = []
    first = None
    for (nm, t), R in zip(souts, rows_all):
        if t is None:
            continue
        rows = core.ref_poly_rows(R, all_ids)
        flat = t.a.reshape(-1)
        for k, (p, r) in enumerate(zip(flat, rows)):
            d = p - r
            if first is None:
                first = d
            if not d.is_zero():
                res.nontrivial = True
            v, model = solver.decide_amplified(d, tau, label='%s[%d]' % (nm, k))
            if v == 'sat':
                if pc and solver._last_guess is not model:
                    model = solver.nice_model(solver._last_query, [int(a) for a in all_ids]) or model
                sats.append((nm, k, model))
            elif v != 'unsat':
                res.status = 'inconclusive'; res.notes.append('solver answered %s on %s[%d]' % (v, nm, k))
            if len(sats) >= max_sat:
                break
        if len(sats) >= max_sat:
            break
    res.stats = st
    if first is not None:
        dd = first + Poly.var(int(all_ids[0])) * Fraction(1, 10 ** 6) * max(1, int(scale))
        cs = smt.Solver(stats=smt.Stats()); cs.keep_sample = False
        v, m = cs.decide(dd, tau)
        if v == 'unknown':
            res.notes.append('canary query timed out (not counted)')
        elif v != 'sat' or abs(dd.evalq({a: m.get(a, Fraction(0)) for a in dd.atoms()})) <= tau / 2:
            res.status = 'error'; res.trace = 'canary query was not refuted (%s)' % v
            return None
    # ---- replay ---------------------------------------------------------------------------------
    names = [nm for nm, _ in souts]
    for nm, k, model in sats:
        xv = [core.model_array(model, i) for i in ids]
        rep = replay_values(impl, ref, xv, names.index(nm), k, float(tau), rpw)
        res.violations.append(dict(what='%s %s[%d] differs from the reference by %.3g (tau %.3g)' % (what, nm, k, rep['diff'], float(tau)),
                                   facts=facts, replay=dict(kind='values', xs=[x.tolist() for x in xv], out=names.index(nm), k=int(k), tau=float(tau)),
                                   reproduced=rep['reproduced'], path_dependent=bool(pc)))
    if res.violations:
        res.status = 'violation'
    return dict(souts=souts, ids=ids, all_ids=all_ids, rows=rows_all, scale=scale, tau=tau, solver=solver)


def replay_values(impl, ref, xv, oi, k, tau, rpw=None):
    rt = symtorch.real_torch()
    rpw = rpw or symtorch.real()
    got = impl(rpw, [rt.tensor(x, dtype=rt.float64) for x in xv])
    exp = ref(xv)
    g = got[oi][1]; e = exp[oi]
    if g is None or e is None or tuple(g.shape) != tuple(np.asarray(e).shape):
        return dict(reproduced=True, diff=float('inf'))
    diff = abs(float(g.detach().numpy().reshape(-1)[k]) - float(np.asarray(e).reshape(-1)[k]))
    return dict(reproduced=diff > tau / 2, diff=diff)


def replay_uninit(payload, in_specs, impl):
    rt = symtorch.real_torch()
    xs = [np.array(x) for x in payload['replay']['xs']]
    with symtorch.poison_uninit():
        rp = core.outcome(lambda: impl(symtorch.real(), [rt.tensor(x, dtype=rt.float64) for x in xs]))
    bad = rp[0] == 'ok' and any(t is not None and not bool(rt.isfinite(t).all()) for _, t in rp[1])
    return dict(reproduced=bool(bad), detail='outputs are non-finite once never-written memory is poisoned with NaN' if bad else str(rp[:2]))


def replay_generic(payload, in_specs, impl, ref):
    rp = payload['replay']
    rt = symtorch.real_torch()
    if rp['kind'] == 'values':
        r = replay_values(impl, ref, [np.array(x) for x in rp['xs']], rp['out'], rp['k'], rp['tau'])
        return dict(reproduced=r['reproduced'], detail=r)
    if rp['kind'] == 'uninit':
        return replay_uninit(payload, in_specs, impl)
    xs = [np.zeros(s) for _, s in in_specs]
    ro = core.outcome(lambda: impl(symtorch.real(), [rt.tensor(x, dtype=rt.float64) for x in xs]))
    oo = core.outcome(lambda: ref(xs))
    if rp['kind'] == 'raise':
        return dict(reproduced=ro[0] == 'raise' and oo[0] == 'ok', detail=ro[:3])
    if ro[0] != 'ok' or oo[0] != 'ok':
        return dict(reproduced=ro[0] != oo[0], detail=[ro[:3], oo[:3]])
    gs = [None if t is None else tuple(t.shape) for _, t in ro[1]]
    es = [None if r is None else tuple(np.asarray(r).shape) for r in oo[1]]
    return dict(reproduced=gs != es, detail=dict(got=gs, expected=es))


def check_same(res, cfg, facts, in_specs, impl_a, impl_b, **kw):
    """Two entry points run symbolically on the SAME input atoms must give the same outputs (same structure, shapes, values) for
    every input.  impl_x(pw, tensors) -> [(name, tensor-or-None-or-marker)]; non-tensor items are compared with ==.
    Every feasible data-dependent path is explored."""
    return core.run_paths(res, lambda: _check_same_path(res, cfg, facts, in_specs, impl_a, impl_b, **kw))


def _check_same_path(res, cfg, facts, in_specs, impl_a, impl_b, tau_rel=1e-9, what='outputs', max_sat=2, seed=2, timeout_ms=60000,
                     allow_both_raise=True, scale=None, on_path=None):
    rt = symtorch.real_torch()
    rng = np.random.default_rng(seed)
    t0 = time.time()
    with symtorch.symbolic():
        spw = symtorch.sym()
        tens = []; ids = []
        for nm, s in in_specs:
            t, i = core.symin(tuple(s), name=nm)
            tens.append(t); ids.append(i)
        sa = core.outcome(lambda: impl_a(spw, tens))
        sb = core.outcome(lambda: impl_b(spw, tens))
    res.symexec_s += time.time() - t0
    res.funcs = sorted(set(res.funcs) | T.STATE.funcs_entered)
    xs = [rng.uniform(-1, 1, size=s) for _, s in in_specs]
    pc = list(P.PATHS.taken)
    if pc:
        facts = dict(facts, path=[bool(d) for _, d in pc])
        what = what + ' [data-dependent path %s]' % facts['path']
        env0 = P.AtomEnv()
        for i, x in zip(ids, xs):
            for a, v in zip(i.reshape(-1), x.reshape(-1)):
                env0[int(a)] = float(v)
        if not core.path_env_ok(env0):
            xs = _pc_point(ids, pc)
            if xs is None:
                res.notes.append('no dyadic point found on path %s; path skipped' % facts['path'])
                if res.status == 'held':
                    res.status = 'inconclusive'
                return None
    ra = core.outcome(lambda: impl_a(symtorch.real(), [rt.tensor(x, dtype=rt.float64) for x in xs]))
    rb = core.outcome(lambda: impl_b(symtorch.real(), [rt.tensor(x, dtype=rt.float64) for x in xs]))
    for s_, r_ in ((sa, ra), (sb, rb)):
        if s_[0] == 'unsupported':
            res.status = 'inconclusive'; res.notes.append('symbolic engine: ' + s_[1]); return None
        if s_[0] != r_[0] or (s_[0] == 'raise' and s_[1] != r_[1]):
            res.status = 'error'; res.trace = 'symbolic outcome %r differs from real torch outcome %r' % (core.brief(s_), core.brief(r_)); return None
    if sa[0] == 'raise' or sb[0] == 'raise':
        if sa[0] == sb[0] and allow_both_raise:
            res.status = 'skipped'; res.notes.append('both sides raise (%s / %s)' % (sa[1], sb[1])); return None
        bad = 'first' if sa[0] == 'raise' else 'second'
        res.status = 'violation'
        res.violations.append(dict(what='%s: the %s form raises %s (%s), the other returns' % (what, bad, (sa if sa[0] == 'raise' else sb)[1], (sa if sa[0] == 'raise' else sb)[2][:100]),
                                   facts=facts, replay=dict(kind='raise'), reproduced=True))
        return None
    A, Bv = sa[1], sb[1]
    if len(A) != len(Bv):
        res.status = 'violation'
        res.violations.append(dict(what='%s: %d vs %d outputs' % (what, len(A), len(Bv)), facts=facts, replay=dict(kind='shape'), reproduced=len(ra[1]) != len(rb[1])))
        return None
    env = P.AtomEnv()
    for i, x in zip(ids, xs):
        for a, v in zip(i.reshape(-1), x.reshape(-1)):
            env[int(a)] = float(v)
    dev = 0.0
    gscale = 1.0
    pairs = []
    for k, ((na, ta), (nb, tb)) in enumerate(zip(A, Bv)):
        is_ta = isinstance(ta, T.Tensor); is_tb = isinstance(tb, T.Tensor)
        if not is_ta or not is_tb:
            if (ta is None) != (tb is None) or (not is_ta and not is_tb and ta != tb) or (is_ta != is_tb):
                res.status = 'violation'
                res.violations.append(dict(what='%s: %s is %r vs %r' % (what, na, type(ta).__name__, type(tb).__name__), facts=facts, replay=dict(kind='shape'), reproduced=True))
                return None
            continue
        if tuple(ta.shape) != tuple(tb.shape):
            res.status = 'violation'
            res.violations.append(dict(what='%s: %s has shape %s vs %s' % (what, na, tuple(ta.shape), tuple(tb.shape)), facts=facts, replay=dict(kind='shape'),
                                       reproduced=tuple(ra[1][k][1].shape) != tuple(rb[1][k][1].shape)))
            return None
        for s_t, r_t in ((ta, ra[1][k][1]), (tb, rb[1][k][1])):
            if s_t.a.dtype != object:
                continue
            sv = np.array([p.evalf(env) for p in s_t.a.reshape(-1)])
            rv = r_t.detach().numpy().reshape(-1)
            if sv.shape != rv.shape:
                res.status = 'error'; res.trace = 'shape mismatch symbolic vs real for %s' % na; return None
            if sv.size:
                dev = max(dev, float(np.abs(sv - rv).max())); gscale = max(gscale, float(np.abs(rv).max()))
        pairs.append((na, ta, tb, k))
    res.validated = dev if res.validated is None else max(res.validated, dev)
    if dev > 1e-9 * gscale:
        res.status = 'error'; res.trace = 'symbolic values deviate from real torch by %g' % dev; return None
    if on_path is not None:
        on_path(pc, A, Bv, ids)
    sc = scale or 1.0
    tau = Fraction(tau_rel).limit_denominator(10 ** 15) * Fraction(sc)
    st = res.stats or smt.Stats()
    solver = smt.Solver(stats=st, timeout_ms=timeout_ms)
    if pc:
        for i in ids:
            for a in i.reshape(-1):
                solver.var(int(a))
        solver.add_path(pc)
    sats = []
    first = None
    for na, ta, tb, k in pairs:
        if ta.a.dtype != object:
            if not np.array_equal(ta.a, tb.a):
                res.status = 'violation'
                res.violations.append(dict(what='%s: integer output %s differs' % (what, na), facts=facts, replay=dict(kind='shape'), reproduced=True)); return None
            continue
        for e, (p, q) in enumerate(zip(ta.a.reshape(-1), tb.a.reshape(-1))):
            d = p - q
            if first is None and (p.t or q.t):
                first = (d, p)
            if p.t or q.t:
                res.nontrivial = True
            v, model = solver.decide_amplified(d, tau, label='%s[%d]' % (na, e))
            if v == 'sat':
                if pc:
                    model = solver.nice_model(solver._last_query, [int(a) for i in ids for a in i.reshape(-1)]) or model
                sats.append((na, k, e, model))
            elif v != 'unsat':
                res.status = 'inconclusive'; res.notes.append('solver answered %s on %s[%d]' % (v, na, e))
            if len(sats) >= max_sat:
                break
        if len(sats) >= max_sat:
            break
    res.stats = st
    if first is not None:
        d, p = first
        at = sorted(p.atoms())
        if at:
            dd = d + Poly.var(at[0]) * Fraction(1, 10 ** 6) * max(1, int(sc))
            cs = smt.Solver(stats=smt.Stats()); cs.keep_sample = False
            v, m = cs.decide(dd, tau)
            if v == 'unsat':
                res.status = 'error'; res.trace = 'canary query was not refuted (%s)' % v; return None
    for na, k, e, model in sats:
        xv = [core.model_array(model, i) for i in ids]
        r1 = impl_a(symtorch.real(), [rt.tensor(x, dtype=rt.float64) for x in xv])
        r2 = impl_b(symtorch.real(), [rt.tensor(x, dtype=rt.float64) for x in xv])
        diff = abs(float(r1[k][1].reshape(-1)[e]) - float(r2[k][1].reshape(-1)[e]))
        res.violations.append(dict(what='%s: %s[%d] differs between the two forms by %.3g' % (what, na, e, diff), facts=facts,
                                   replay=dict(kind='same', xs=[x.tolist() for x in xv], out=k, e=int(e), tau=float(tau)), reproduced=diff > float(tau) / 2,
                                   path_dependent=bool(pc)))
    if res.violations:
        res.status = 'violation'
    return dict(A=A, B=Bv, ids=ids, tau=tau, solver=solver)


def replay_same(payload, in_specs, impl_a, impl_b):
    rp = payload['replay']
    rt = symtorch.real_torch()
    if rp['kind'] == 'same':
        xv = [np.array(x) for x in rp['xs']]
        r1 = impl_a(symtorch.real(), [rt.tensor(x, dtype=rt.float64) for x in xv])
        r2 = impl_b(symtorch.real(), [rt.tensor(x, dtype=rt.float64) for x in xv])
        diff = abs(float(r1[rp['out']][1].reshape(-1)[rp['e']]) - float(r2[rp['out']][1].reshape(-1)[rp['e']]))
        return dict(reproduced=diff > rp['tau'] / 2, detail=diff)
    xs = [np.zeros(s) for _, s in in_specs]
    a = core.outcome(lambda: impl_a(symtorch.real(), [rt.tensor(x, dtype=rt.float64) for x in xs]))
    b = core.outcome(lambda: impl_b(symtorch.real(), [rt.tensor(x, dtype=rt.float64) for x in xs]))
    if rp['kind'] == 'raise':
        return dict(reproduced=(a[0] == 'raise') != (b[0] == 'raise'), detail=[a[:3], b[:3]])
    if a[0] != 'ok' or b[0] != 'ok':
        return dict(reproduced=True, detail=[a[:3], b[:3]])
    sa = [tuple(t.shape) if hasattr(t, 'shape') else t for _, t in a[1]]
    sb = [tuple(t.shape) if hasattr(t, 'shape') else t for _, t in b[1]]
    return dict(reproduced=sa != sb, detail=dict(a=sa, b=sb))
