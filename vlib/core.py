"""Shared harness helpers: symbolic inputs, coefficient tables, engine validation, result records."""
import hashlib
import json
import time
import traceback
import numpy as np
from fractions import Fraction
import symtorch
from symtorch import poly as P, tensor as T, autograd as AG
from symtorch.poly import Poly, Unsupported


def begin(default64=True):
    """fresh engine state for one configuration"""
    T.reset_engine()
    if default64:
        T.set_default_dtype(T.float64)
    rt = symtorch.real_torch()
    rt.set_default_dtype(rt.float64 if default64 else rt.float32)
    rt.set_grad_enabled(True)


def symin(shape, kind='in', name='x', dtype=None, requires_grad=False):
    """tensor of fresh atoms; returns (Tensor, atom index array)"""
    a = np.empty(shape, dtype=object)
    ids = np.empty(shape, dtype=np.int64)
    for idx in np.ndindex(*shape):
        i = P.ATOMS.new(kind, (name, idx))
        ids[idx] = i
        a[idx] = Poly.var(i)
    t = T.Tensor(a, dtype or T.float64, requires_grad=requires_grad, origin='arg:' + name)
    return t, ids


def lin_table(arr, atoms):
    """object array of linear Polys -> (float matrix rows=elements cols=atoms order, const vector); raises if non-linear"""
    col = {int(a): j for j, a in enumerate(np.asarray(atoms).reshape(-1))}
    flat = arr.reshape(-1)
    M = np.zeros((len(flat), len(col)))
    c0 = np.zeros(len(flat))
    for r, p in enumerate(flat):
        for k, v in p.t.items():
            if not k:
                c0[r] = float(v)
            elif len(k) == 1 and k[0] in col:
                M[r, col[k[0]]] = float(v)
            else:
                raise ValueError('element %d is not a linear form over the given atoms' % r)
    return M, c0


def ref_poly_rows(R, atoms):
    """float matrix (rows=outputs, cols=inputs) -> list of exact linear Polys over atoms"""
    at = [int(a) for a in np.asarray(atoms).reshape(-1)]
    rows = []
    for r in R:
        t = {}
        for j in np.nonzero(r)[0]:
            t[(at[j],)] = Fraction(float(r[j]))
        rows.append(Poly(t))
    return rows


def flatten_out(o, path=''):
    """nested tuple/list of tensors/None -> list of (path, item)"""
    if isinstance(o, (tuple, list)):
        out = []
        for i, v in enumerate(o):
            out.extend(flatten_out(v, path + '/%d' % i))
        return out
    return [(path or '/', o)]


def outcome(fn):
    """run fn; -> ('ok', value) | ('raise', exception class name, message) | ('unsupported', message)"""
    try:
        return ('ok', fn())
    except Unsupported as e:
        return ('unsupported', str(e))
    except Exception as e:  # noqa
        return ('raise', type(e).__name__, str(e)[:300])


class Result:
    """per-configuration record returned by a worker"""

    def __init__(self, cfg):
        self.cfg = cfg
        self.status = 'held'         # held | violation | inconclusive | error | skipped
        self.violations = []         # dicts: {what, facts, replay}
        self.notes = []
        self.stats = None
        self.symexec_s = 0.0
        self.validated = None        # max deviation symbolic-vs-real, or None
        self.nontrivial = False
        self.paths = 1
        self.funcs = []
        self.trace = None

    def to_dict(self):
        return dict(cfg=self.cfg, status=self.status, violations=self.violations, notes=self.notes,
                    stats=self.stats.as_dict() if self.stats else None, samples=self.stats.samples if self.stats else [],
                    symexec_s=round(self.symexec_s, 4), validated=self.validated, nontrivial=self.nontrivial,
                    paths=self.paths, funcs=self.funcs, trace=self.trace)


def to_jsonable(x):
    if isinstance(x, Fraction):
        return float(x)
    if isinstance(x, (np.integer,)):
        return int(x)
    if isinstance(x, (np.floating,)):
        return float(x)
    if isinstance(x, np.ndarray):
        return x.tolist()
    if isinstance(x, dict):
        return {str(k): to_jsonable(v) for k, v in x.items()}
    if isinstance(x, (list, tuple)):
        return [to_jsonable(v) for v in x]
    return x


def model_array(model, ids, default=0.0):
    """model {atom: Fraction} -> float array shaped like ids"""
    out = np.zeros(ids.shape)
    for idx in np.ndindex(*ids.shape):
        out[idx] = float(model.get(int(ids[idx]), default))
    return out


def cfg_hash(cfg):
    return hashlib.sha1(json.dumps(cfg, sort_keys=True, default=str).encode()).hexdigest()[:12]


def run_paths(res, body, max_paths=12, default64=True):
    """CrossHair-style exploration of data-dependent branches: body() performs one symbolic run (it may consult
    P.PATHS.taken for the path condition) and everything that depends on it; it is re-run once per feasible path."""
    from vlib import smt as _smt
    pending = [[]]
    n = 0
    last = None
    while pending:
        prefix = pending.pop(0)
        begin(default64)
        P.PATHS.prefix = list(prefix)
        P.PATHS.enabled = True
        P.PATHS.feasible = _smt.feasible
        last = body()
        n += 1
        pending.extend(P.PATHS.pending)
        if res.status == 'error':
            break
        if n >= max_paths and pending:
            if res.status == 'held':
                res.status = 'inconclusive'
            res.notes.append('path budget exhausted (%d paths explored, %d pending)' % (n, len(pending)))
            break
    res.paths = n
    return last


def path_env_ok(env):
    """does the float environment follow the path of the current symbolic run?"""
    for c, dec in P.PATHS.taken:
        try:
            if bool(P.cond_evalf(c, env)) != dec:
                return False
        except KeyError:
            return False
    return True


def brief(o):
    """short form of an outcome tuple for messages: ('ok',) without the values, ('raise', type, message[:300])"""
    if not isinstance(o, tuple) or not o:
        return repr(o)[:300]
    if o[0] == 'ok':
        return ('ok',)
    return tuple(str(x)[:300] for x in o[:3])
