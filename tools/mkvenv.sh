#!/bin/sh
# Overlay venv: /venv's interpreter and site-packages (torch, numpy, pywt, dtcwt) + solver wheels.
set -e
V=/verif/.venv
if [ -x "$V/bin/python" ] && [ -f "$V/.ok" ]; then exit 0; fi
rm -rf "$V"
/venv/bin/python -m venv "$V"
SP=$("$V/bin/python" -c "import sysconfig;print(sysconfig.get_paths()['purelib'])")
printf "import site; site.addsitedir('/venv/lib/python3.12/site-packages')\n" > "$SP/_verif_overlay.pth"
PIP_NO_INDEX=1 "$V/bin/python" -m pip install -q --no-index --find-links /opt/veriftools/wheels z3-solver crosshair-tool cvc5 >/dev/null
"$V/bin/python" -c "import z3, crosshair, torch, pywt; print('overlay venv ok: z3', z3.get_version_string())" && touch "$V/.ok"
