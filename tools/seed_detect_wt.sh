#!/bin/sh
# tools/seed_detect_wt.sh <seed id> <property id> [extra check args] -- run the quick check against a scratch worktree of /repo HEAD with the seeded change applied
set -u
SID=$1; PID=$2; shift 2
WT=/tmp/wt/det_${SID}_$PID
git -C /repo worktree remove --force $WT >/dev/null 2>&1
git -C /repo worktree add -q --detach $WT HEAD || exit 2
git -C $WT apply /verif/seeded/$SID/patch.diff || { echo "$SID: patch does not apply"; git -C /repo worktree remove --force $WT; exit 2; }
cd /verif
./check $PID --no-evidence --repo $WT "$@" > /tmp/detect_${SID}_$PID.log 2>&1; RC=$?
git -C /repo worktree remove --force $WT
echo "$SID on $PID: exit=$RC  $(grep -c '^VIOLATION' /tmp/detect_${SID}_$PID.log) VIOLATION; $(grep -c '^HARNESS-ERROR' /tmp/detect_${SID}_$PID.log) harness errors; $(grep -c '^INCONCLUSIVE' /tmp/detect_${SID}_$PID.log) inconclusive | $(head -1 /tmp/detect_${SID}_$PID.log | cut -c1-120)"
python3 - "$SID" "$PID" "$RC" <<'PY'
import json,sys,fcntl
sid,pid,rc=sys.argv[1:4]
p='/verif/seeded/%s/meta.json'%sid
with open(p,'r+') as f:
    fcntl.flock(f,fcntl.LOCK_EX)
    m=json.load(f); d=m.get('detected_by') or {}
    d[pid]={'quick_exit':int(rc),'detected':int(rc)==1}
    m['detected_by']=d; f.seek(0); f.truncate(); json.dump(m,f,indent=1)
PY
