#!/usr/bin/env python3
"""Regenerate MANIFEST.json from the table below (claimed checks) + properties.jsonl (not_applicable for the rest)."""
import json, os
ROOT = os.path.dirname(os.path.dirname(os.path.abspath(__file__)))
props = [json.loads(l) for l in open(os.path.join(ROOT, 'properties.jsonl'))]

TECH = 'symbolic execution of the real Python source on a symbolic tensor shim (exact polynomials) + z3 (QF_LRA/QF_NRA) per output element; sat models replayed on real torch'
BASE_NOTE = ('Bounded: holds for every real-valued input of each enumerated configuration (wavelet/filter table, mode, J, shapes listed in evidence.coverage.bounds); '
             'nothing is claimed outside those lists. Real-arithmetic semantics (float rounding inside ATen kernels is outside). Trusted: z3, the symbolic shim '
             '(cross-checked against real torch on the whole operator for every configuration), the reference packages used as oracle. '
             'Also covered in each configuration list: calling contexts (no_grad, inputs requiring grad, transposed / channels-last storage), user-supplied filter banks; '
             'implementations that select values by magnitude are decided with the defining constraints on boxes of radius 1, 2^-30, 2^-60 (relative tolerance); '
             'torch.empty-style allocations are fresh unconstrained atoms, so a result depending on never-written memory is reported (replayed with NaN-poisoned allocators).')

CLAIMED = {
 'C01': dict(text='For each enumerated (wavelet, mode, J, size, batch) the forward DWT is executed symbolically from /repo source; z3 shows that no input in [-1,1]^n '
                  'makes any coefficient differ from the PyWavelets basis-response form by more than 1e-9*gain (linear map, so the box is w.l.o.g.). Shapes/band order compared with the oracle. '
                  'Short signals, odd sizes, every mode are enumerated systematically, which the test-suite never does.', ref='4 C01'),
 'C02': dict(text='inverse(forward(x)) executed symbolically; per sample z3 shows equality with PyWavelets waverec(wavedec(x)) within 1e-9*gain and, where PyWavelets itself is PR, with x within 1e-7*gain, for every input.', ref='4 C02'),
 'C03': dict(text='DTCWTForward executed symbolically; per lowpass/subband element z3 shows equality with the basis-response form of the reference dtcwt.Transform2d.forward for every input; pyramid shapes compared.', ref='4 C03'),
 'C04': dict(text='DTCWTInverse(DTCWTForward(x)) executed symbolically; per sample z3 shows equality with the (even-extended) input within 1e-7*gain for every input; output shape checked.', ref='4 C04'),
 'C05': dict(text='the DWT modules are run with every subset of arguments requiring grad; a tape model of autograd (validated against real autograd per configuration) calls the repository\'s own '
                  'backward functions; per leaf element z3 shows the gradient form equals J^T g read off the same symbolic forward run, for every cotangent g; a leaf that needs grad and gets none is reported.', ref='4 C05'),
 'C06': dict(text='as C05 for DTCWTForward/DTCWTInverse: 6 (thorough 20) filter pairs, layouts, skip/include masks, all inverse grad subsets incl. None levels; data-dependent branches in the backward are explored path by path.', ref='4 C06'),
 'C07': dict(text='each transform is run on a (B,C) batch of atoms: every output must be a homogeneous linear form on every feasible path and all paths must agree (linearity), and the batched run must equal the per-slice (1,1) runs '
                  '(slice independence, same operator for every slice and batch shape); optional prelude call with another wavelet of the same length.', ref='4 C07'),
 'C15': dict(text='ordered sequences of calls from a pool of 13 module configurations, each in a fresh process with a forked pristine baseline: argument tensors/lists unchanged, write barrier silent, buffers unchanged, '
                  'outputs after the history identical to the baseline (symbolic identity, z3 on differences), module-level state digest unchanged (induction step for longer histories), autograd on/off identical.', ref='4 C15',
             note=BASE_NOTE + ' THREADS: no interleaving is explored; only the non-interference premises (no writes to shared or argument state) are decided, from which schedule independence follows if torch kernels and dict are thread-safe.'),
 'C16': dict(text='PARTIAL claim: dtype flow over 8 module/input precision combinations (tags + torch kernel dtype errors modelled, compared with real torch), converted == constructed module, float32 tap quantisation bound '
                  '|T32-T64| <= 64 eps32 gain for all inputs (z3), strided/sliced/transposed symbolic views == contiguous copies; no forward division of a scattering layer can meet a zero divisor on |x|<=1 incl. magbias 0 (interval enclosure of every reciprocal atom, else exact witness replayed).', ref='4 C16',
             note=BASE_NOTE + ' NOT decided: floating-point rounding of the arithmetic inside ATen/oneDNN kernels (accumulation order unspecified, not encodable); a cancellation-prone reformulation is invisible to this check.'),
 'C08': dict(text='both scattering layers run on input atoms; every sqrt is purified, so each output is a linear form or sqrt(q)+c with q an exact polynomial: lowpass channels vs the pooled reference lowpass (linear queries), '
                  'c = -magbias exactly and q == re_ref^2+im_ref^2(+colour)+b^2 composed from dtcwt.Transform2d basis responses (polynomial tolerance queries, rounding/interval lemma + z3), second order compositionally '
                  '(inner magnitudes matched to reference positions, outer stage vs the reference operator on those atoms); shapes/layout, edge extension, non-negativity.', ref='4 C08',
             technique='symbolic execution with purified sqrt atoms + polynomial identity queries (exact rational interval/rounding lemma, z3 QF_NRA restricted to lines for counterexamples), replay on real torch vs the reference composition'),
 'C09': dict(text='the layers are run with the input requiring grad; the tape model calls the repository\'s own backward with a symbolic cotangent; oracle = symbolic derivative of the forward\'s own expression DAG (chain rule through the '
                  'purified sqrt / reciprocal / linear-form atoms); per input element the difference polynomial in (g, x, r, 1/r, u) must vanish within tolerance with all atoms free in their boxes; every reciprocal is of a sqrt atom with '
                  'radicand (sum of squares)+b^2 > 0 also on the zero image; replay by central differences on the real forward.', ref='4 C09',
             technique='symbolic execution + tape model of autograd + symbolic differentiation of the forward DAG; polynomial identity queries (normal form, interval/rounding lemma, z3 on lines); finite-difference replay'),
 'C10': dict(text='inverse DWT executed on a free symbolic pyramid (not only transforms of signals); per sample z3 shows equality with the waverec basis-response form; None levels compared with zero-substitution of the full symbolic run and with the oracle.', ref='4 C10'),
 'C11': dict(text='DTCWTInverse executed on a free symbolic pyramid of reference shapes; per sample z3 shows equality with dtcwt.Transform2d.inverse; every absence mask (None / empty tensor for lowpass or any level) is compared with the reference given zeros.', ref='4 C11'),
 'C12': dict(text='get_dimensions5/6 checked for ALL integers by CrossHair (z3) against the axis specification; all 30 layouts (+negative aliases) forward == movedim(default) and inverse(layout) == default inverse on free symbolic pyramids; all skip/include masks and prefix consistency as exact identities between symbolic runs.', ref='4 C12',
             technique='CrossHair symbolic execution (z3, unbounded integers) for the axis tables + symbolic execution on the tensor shim with z3 for layout/mask/prefix identities'),
 'C13': dict(text='SWTForward executed symbolically; per band element z3 shows equality with pywt.swt2; output structure (J tensors (N,C,4,H,W)); shift-equivariance as an exact identity between runs on permuted atoms.', ref='4 C13'),
 'C14': dict(text='DWTForward/DWTInverse built from two different wavelets (4-tuple) executed symbolically; z3 shows equality with PyWavelets called with one wavelet per axis, and (symbolic taps of different lengths) with the library\'s own functional afb2d/sfb2d.', ref='4 C14'),
 'C17': dict(text='from one symbolic forward run the exact matrix A is read off; z3 shows A^T A y = y, inverse(c) = A^T c and backprop(g) = A^T g = inverse(g) for every y, c, g (inner products/energy follow by polarisation); the repository\'s backward is driven by a tape model of autograd.', ref='4 C17'),
 'C18': dict(text='finite and exhaustive: every shipped table loaded through the real loader; each identity (equality with dtcwt.coeffs, symmetry, level-1 PR, q-shift orthonormality and time-reverse relations, reload equality) is a ground real-arithmetic assertion over the exact rational values discharged by z3.', ref='4 C18',
             technique='exact rational evaluation of the identities + ground z3 real-arithmetic assertions (tolerance 1e-8), exhaustive over all tables'),
 'C19': dict(text='separable and non-separable one-level banks executed on the same input atoms, with concrete taps and with SYMBOLIC taps (one run covers every filter of those lengths); z3 shows the outputs equal for every input and every tap value; raise parity checked.', ref='4 C19'),
}

checks = []
for pid, c in CLAIMED.items():
    checks.append({
        'property_id': pid,
        'quick_cmd': './check %s --tier quick' % pid,
        'thorough_cmd': './check %s --tier thorough' % pid,
        'evidence_file': 'evidence/%s.json' % pid,
        'replay_cmd_template': './check %s --replay {path}' % pid,
        'engine': 'symtorch+z3',
        'level_claimed': {'category': 'other', 'text': 'bounded symbolic verification (solver-decided for all inputs within the stated configuration bounds). ' + c['text'],
                          'design_ref': 'DESIGN.md section ' + c['ref']},
        'level_note': c.get('note', BASE_NOTE),
        'technique': c.get('technique', TECH),
    })
na = [{'property_id': p['id'], 'reason': 'check not built yet'} for p in props if p['id'] not in CLAIMED]
m = {
 'version': 1,
 'setup_cmd': './setup.sh',
 'hooks': {'guard': 'PYTORCH_WAVELETS_VERIF',
           'enable': 'no hooks are needed: the real source is executed on a symbolic torch shim injected from outside /repo; the guard variable is declared but guards nothing',
           'baseline_off_cmd': 'cd /repo && /venv/bin/python -m pytest -ra -q -p no:cacheprovider --timeout=900 --continue-on-collection-errors',
           'source_commits': [], 'add_only': True},
 'engines': [
   {'name': 'symtorch+z3', 'path': 'symtorch/ vlib/ harness/', 'serves_properties': sorted(CLAIMED),
    'kind_free_text': 'symbolic execution of /repo Python source on exact-polynomial tensors, SMT (z3) queries per output element, replay on real torch'}],
 'checks': checks,
 'notes': 'bounded symbolic verification: the real /repo source is executed on a symbolic tensor library (symtorch) and the resulting exact expressions are decided by z3; see DESIGN.md. '
          'Exit codes of ./check: 0 held, 1 violation (VIOLATION line), 2 harness error, 3 inconclusive.',
 'not_applicable': na,
}
json.dump(m, open(os.path.join(ROOT, 'MANIFEST.json'), 'w'), indent=1)
print('claimed', sorted(CLAIMED), 'not yet', [x['property_id'] for x in na])
