#!/usr/bin/env python3
"""Regenerate MANIFEST.json from the table below (claimed checks) + properties.jsonl (not_applicable for the rest)."""
import json, os
ROOT = os.path.dirname(os.path.dirname(os.path.abspath(__file__)))
props = [json.loads(l) for l in open(os.path.join(ROOT, 'properties.jsonl'))]

TECH = 'symbolic execution of the real Python source on a symbolic tensor shim (exact polynomials) + z3 (QF_LRA/QF_NRA) per output element; sat models replayed on real torch'
BASE_NOTE = ('Bounded: holds for every real-valued input of each enumerated configuration (wavelet/filter table, mode, J, shapes listed in evidence.coverage.bounds); '
             'nothing is claimed outside those lists. Real-arithmetic semantics (float rounding inside ATen kernels is outside). Trusted: z3, the symbolic shim '
             '(cross-checked against real torch on the whole operator for every configuration), the reference packages used as oracle.')

CLAIMED = {
 'C01': dict(text='For each enumerated (wavelet, mode, J, size, batch) the forward DWT is executed symbolically from /repo source; z3 shows that no input in [-1,1]^n '
                  'makes any coefficient differ from the PyWavelets basis-response form by more than 1e-9*gain (linear map, so the box is w.l.o.g.). Shapes/band order compared with the oracle. '
                  'Short signals, odd sizes, every mode are enumerated systematically, which the test-suite never does.', ref='4 C01'),
 'C02': dict(text='inverse(forward(x)) executed symbolically; per sample z3 shows equality with PyWavelets waverec(wavedec(x)) within 1e-9*gain and, where PyWavelets itself is PR, with x within 1e-7*gain, for every input.', ref='4 C02'),
 'C10': dict(text='inverse DWT executed on a free symbolic pyramid (not only transforms of signals); per sample z3 shows equality with the waverec basis-response form; None levels compared with zero-substitution of the full symbolic run and with the oracle.', ref='4 C10'),
}

checks = []
for pid, c in CLAIMED.items():
    checks.append({
        'property_id': pid,
        'quick_cmd': './check %s --tier quick' % pid,
        'thorough_cmd': './check %s --tier thorough' % pid,
        'evidence_file': 'evidence/%s.json' % pid,
        'replay_cmd_template': './check %s --replay {path}' % pid,
        'engine': 'symtorch+z3',
        'level_claimed': {'category': 'other', 'text': 'bounded symbolic verification (solver-decided for all inputs within the stated configuration bounds). ' + c['text'],
                          'design_ref': 'DESIGN.md section ' + c['ref']},
        'level_note': c.get('note', BASE_NOTE),
        'technique': c.get('technique', TECH),
    })
na = [{'property_id': p['id'], 'reason': 'check not built yet (build in progress, see DESIGN.md section 8)'} for p in props if p['id'] not in CLAIMED]
m = {
 'version': 1,
 'setup_cmd': './setup.sh',
 'hooks': {'guard': 'PYTORCH_WAVELETS_VERIF',
           'enable': 'no hooks are needed: the real source is executed on a symbolic torch shim injected from outside /repo; the guard variable is declared but guards nothing',
           'baseline_off_cmd': 'cd /repo && /venv/bin/python -m pytest -ra -q -p no:cacheprovider --timeout=900 --continue-on-collection-errors',
           'source_commits': [], 'add_only': True},
 'engines': [
   {'name': 'symtorch+z3', 'path': 'symtorch/ vlib/ harness/', 'serves_properties': sorted(CLAIMED),
    'kind_free_text': 'symbolic execution of /repo Python source on exact-polynomial tensors, SMT (z3) queries per output element, replay on real torch'}],
 'checks': checks,
 'notes': 'bounded symbolic verification: the real /repo source is executed on a symbolic tensor library (symtorch) and the resulting exact expressions are decided by z3; see DESIGN.md. '
          'Exit codes of ./check: 0 held, 1 violation (VIOLATION line), 2 harness error, 3 inconclusive.',
 'not_applicable': na,
}
json.dump(m, open(os.path.join(ROOT, 'MANIFEST.json'), 'w'), indent=1)
print('claimed', sorted(CLAIMED), 'not yet', [x['property_id'] for x in na])
