#!/bin/sh
# tools/seed_rebase.sh <seed id>: re-create seeded/<id>/patch.diff against the current /repo HEAD with a 3-way apply (after a fix: commit moved the context)
SID=$1
WT=/tmp/wt/rebase_$SID
git -C /repo worktree remove --force $WT >/dev/null 2>&1
git -C /repo worktree add -q --detach $WT HEAD || exit 2
cd $WT
if git apply --3way /verif/seeded/$SID/patch.diff >/tmp/rebase_$SID.log 2>&1 && ! grep -q "^U " /tmp/rebase_$SID.log && [ -z "$(git diff --name-only --diff-filter=U)" ]; then
  git diff HEAD > /tmp/rebase_$SID.diff
  if [ -s /tmp/rebase_$SID.diff ]; then cp /verif/seeded/$SID/patch.diff /verif/seeded/$SID/patch.orig.diff; cp /tmp/rebase_$SID.diff /verif/seeded/$SID/patch.diff; echo "$SID: rebased"; else echo "$SID: empty diff"; fi
else
  echo "$SID: 3-way apply failed"; cat /tmp/rebase_$SID.log | tail -3
fi
cd /; git -C /repo worktree remove --force $WT
