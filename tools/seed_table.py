#!/usr/bin/env python3
"""Regenerate seeded/TABLE.md from seeded/*/meta.json"""
import json, glob, os
rows = []
for p in sorted(glob.glob('/verif/seeded/*/meta.json')):
    m = json.load(open(p))
    det = m.get('detected_by') or {}
    needs = (m.get('needs_to_manifest') or '').replace('\n', ' ')
    rows.append((m['seed'], m['property'], ', '.join('%s:%s' % (k, 'caught' if v.get('detected') else 'exit %s' % v.get('quick_exit')) for k, v in sorted(det.items())), needs[:260]))
with open('/verif/seeded/TABLE.md', 'w') as f:
    f.write('# Seeded changes and the checks that catch them (quick tier)\n\n| seed | breaks | checks run -> verdict | what it needs to manifest |\n|---|---|---|---|\n')
    for r in rows:
        f.write('| %s | %s | %s | %s |\n' % r)
print(len(rows), 'seeds')
