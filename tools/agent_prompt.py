#!/usr/bin/env python3
"""Print the prompt given to a fresh mutant-writing sub-agent for one property (only the property text + a worktree)."""
import json, sys
pid = sys.argv[1]; wt = sys.argv[2]; out = sys.argv[3]
VARIANT = sys.argv[4] if len(sys.argv) > 4 else ''
sfx = {'': ('a', 'b'), 'r2': ('c', 'd'), 'r3': ('e', 'f'), 'r4': ('g', 'h'), 'r5': ('i', 'j')}.get(VARIANT, ('c', 'd'))
DIV4 = '''

Diversity requirement for this round: the following kinds have already been tried, do NOT use them: caches/memoisation; shortcuts for all-zero tensors, requires_grad False or no_grad; rewrites of the symmetric-extension index helper; 2-tap (Haar) fast paths; choosing an order from strides; silent dtype casts; swapped row/column filters; magnitude thresholds / denormal flushing; torch.empty buffers left partly unwritten; fast paths for batch size 1 or for many channels that fold channels into the batch; stripping zero filter taps; state written onto the module during forward (e.g. clamping self.J); aliasing or in-place modification of inputs or filter arrays; small-image (<= 8x8) non-separable fast paths. Use something else, for example: an error that only appears when the SAME module or the same autograd graph is used TWICE before or during backward (saved tensors or ctx attributes overwritten by the second forward, backward called twice with retain_graph=True), a wrong constant factor or sign in a backward pass for only ONE level / ONE orientation / ONE of the lowpass-highpass branches, an option whose handling is wrong only for a particular VALUE combination of two or three options together with a particular number of levels, an off-by-one that needs a size that is 2 or 6 modulo 8 at the second or third level, a mode string handled by prefix / membership test so that one documented mode silently behaves like another, integer division or rounding applied at the wrong point for odd sizes, a broadcasting mistake that is invisible unless batch and channel counts differ from each other in a particular way (e.g. N == C hides it, or only N > C shows it).'''
DIV3 = '''

Diversity requirement for this round: the following kinds have already been tried, do NOT use them: (1) a cache/memoisation keyed on too little, (2) a shortcut that skips work when a tensor sums to zero / is all zero / has requires_grad False or runs under no_grad, (3) a rewrite of the symmetric-extension index helper, (4) a special fast path for 2-tap (Haar) filters, (5) choosing the filtering order from tensor strides, (6) silently casting the module or the input to another dtype, (7) swapping row/column filters of a 4-tuple. Use something else, for example: an error that needs SEVERAL CHANNELS or a BATCH > 1 together with some other condition (channel interleaving of grouped convolutions, reshapes that mix batch and channel), index/pad arithmetic that is only wrong when a size is congruent to a particular value modulo 4 or 8 or is close to the filter length, a level-dependent error that appears only at the THIRD or deeper decomposition level, an output that ALIASES an input or another output (a view instead of a copy) so that a later in-place operation by the caller corrupts it, a wrong result only for ONE of the six orientations / three sub-bands / one of the real-imaginary parts, an error for filter banks whose lowpass and highpass filters have DIFFERENT LENGTHS or ODD length, an error that depends on the ORDER in which two options are processed, or a numerically conditional branch (a threshold on magnitudes) that changes the value only for inputs in a narrow range.'''
DIV = '''

Diversity requirement for this round: do NOT use (1) a cache/memoisation keyed on too little, (2) a shortcut that skips work when a tensor sums to zero / is all zero, or (3) a rewrite of the symmetric-extension index helper - those have been tried. At least one of your two changes must be of one of these kinds: an error in how an OPTION COMBINATION is handled (two options that each work alone), a change whose effect depends on TENSOR LAYOUT / DTYPE / requires_grad FLAGS rather than on sizes, a wrong constant or sign that only matters for ONE filter family or one mode, or TWO COOPERATING SITES (e.g. a helper and its caller, forward and backward) that each look correct alone.''' if VARIANT else ''
if VARIANT == 'r3':
    DIV = DIV3
if VARIANT == 'r4':
    DIV = DIV4
DIV5 = DIV4.replace('Use something else, for example:', 'Use something else, for example: an error confined to a code path that only a NON-DEFAULT constructor argument or a rarely used public entry point reaches (functional API in lowlevel.py / transform_funcs.py called directly, non-default o_dim / ri_dim / include_scale / skip_hps / magbias / separable flag / mode), a wrong handling of NON-SQUARE inputs (H != W, one side odd, one side shorter than the filter), a mistake that only shows for wavelets whose decomposition and reconstruction filters differ (biorthogonal: bior / rbio) or whose filters are not symmetric, a value-dependent branch on the SIGN or ordering of samples, or')
OVR5 = '''

OVERRIDE FOR THIS ROUND (time is short): deliver only ONE change, the first one (directory suffix i); ignore every mention of a second change. Aim to finish within about 15 minutes: run only the most relevant test file while iterating and the four-file command once at the end.'''
if VARIANT == 'r5':
    DIV = DIV5 + OVR5
p = [json.loads(l) for l in open('/verif/properties.jsonl') if json.loads(l)['id'] == pid][0]
print(f"""You are helping to evaluate a verification effort for the open-source Python library fbcotter/pytorch_wavelets (differentiable 1D/2D DWT, stationary WT, dual-tree complex wavelet transform, DTCWT ScatterNet, on top of PyTorch).

You have your own scratch git worktree of the library at {wt} (work ONLY there; never touch /repo or /verif, and do not read anything under /verif). Python: /venv/bin/python (torch, numpy, pywt, and the reference `dtcwt` NumPy package are installed). There is no network. The machine is shared: always run with `export OMP_NUM_THREADS=2` so torch does not oversubscribe the cores.

Here is a semantic property of the library that should hold:

  Title: {p['title']}
  Statement: {p['statement']}
  Quantified over: {p['quantifier']['text']}

Your task: write TWO different, independent, realistic source changes to the library (each in the library code under {wt}/pytorch_wavelets, not the tests) that BREAK this property, while the library still imports and the existing test suite still passes exactly as before. Each change should look like something a developer could plausibly commit (a refactor gone subtly wrong, an "optimisation", an off-by-one in index/pad arithmetic, a wrong branch for a rare case, a stale cache, etc.), and must need something SPECIFIC to manifest - an unusual input size/shape/parity, a particular option combination, a particular wavelet/filter family, a particular value pattern in the input, a multi-step sequence of calls, or two cooperating sites that each look fine alone - NOT something ordinary use or the existing tests would expose at once. Keep each change small (a few lines).{DIV}

For each change (call them {sfx[0]} and {sfx[1]}) deliver, in the directory {out}/{pid}{sfx[0]}/ resp. {out}/{pid}{sfx[1]}/ :
  - patch.diff  : `git -C {wt} diff` output of the change (relative to the unmodified worktree HEAD), applying cleanly with `git apply` at the repository root;
  - demo.py     : a small stand-alone program, run as `cd <repo root> && /venv/bin/python demo.py`-style from the repository root (it must import pytorch_wavelets from the current working directory: put `import sys; sys.path.insert(0, '.')` first), that exits 0 and prints PASS on the UNCHANGED library and exits 1 and prints FAIL on the changed library, demonstrating the violation of the property (compare against PyWavelets / the reference dtcwt package / a mathematically defined expectation as appropriate - not against hard-coded numbers copied from the changed code);
  - notes.txt   : 3-6 lines: what the change is, exactly what is needed for it to manifest, and why the existing tests do not see it.

How to check the existing tests: from the worktree root run
  cd {wt} && /venv/bin/python -m pytest -q -p no:cacheprovider tests/test_dtcwt.py tests/test_dwt1d.py tests/test_dwt.py tests/test_scatnet_fwd.py
On the unchanged tree this gives exactly '6 failed, 241 passed' (the 6 failures are NameError: barbara tests in tests/test_dtcwt.py that fail on the unchanged tree too; with your change the result must be the same 241 passed and the same 6 failed; the other test files under tests/ fail on the unchanged tree already because a data file is missing: ignore them). The full run takes several minutes, so while iterating run only the most relevant test file, and run the full four-file command once per finished change to confirm 241 passed. Verify yourself: demo passes without the change (save your change with `git diff > patch.diff`, then `git checkout -- .` to remove it and `git apply patch.diff` to re-apply it; do NOT use `git stash`: the stash is shared between all worktrees of the repository and other agents are working in sibling worktrees), fails with it, tests pass with it. Only one change may be applied in the worktree at a time; leave the worktree clean (git checkout -- .) when you finish.

If the property is already violated by the unchanged library for some inputs, do not rely on that: your change must introduce a NEW violation for inputs on which the unchanged library satisfies the property (the demo must PASS on the unchanged library).

Finish by replying with a short summary: for each change, the one-line description, what it needs to manifest, and confirmation of the three checks (demo passes before, fails after, 241 tests pass after).""")
