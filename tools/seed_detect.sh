#!/bin/sh
# tools/seed_detect.sh <seed id> <property id> [extra check args]  -- apply the seeded change to /repo, run the quick check, undo.
set -u
SID=$1; PID=$2; shift 2
cd /verif
if [ -n "$(git -C /repo status --porcelain --untracked-files=no)" ]; then echo "/repo has uncommitted changes"; exit 2; fi
git -C /repo apply /verif/seeded/$SID/patch.diff || { echo "patch does not apply"; exit 2; }
./check $PID --no-evidence "$@" > /tmp/detect_$SID.log 2>&1; RC=$?
git -C /repo checkout -- .
echo "$SID on $PID: exit=$RC  $(grep -c '^VIOLATION' /tmp/detect_$SID.log) VIOLATION lines; $(grep -c '^HARNESS-ERROR' /tmp/detect_$SID.log) harness errors; $(grep -c '^INCONCLUSIVE' /tmp/detect_$SID.log) inconclusive"
head -1 /tmp/detect_$SID.log | cut -c1-300
grep -A1 '^VIOLATION' /tmp/detect_$SID.log | grep what | head -3 | cut -c1-300
python3 - "$SID" "$PID" "$RC" <<'PY'
import json,sys
sid,pid,rc=sys.argv[1:4]
p='/verif/seeded/%s/meta.json'%sid
m=json.load(open(p)); d=m.get('detected_by') or {}
d[pid]={'quick_exit':int(rc),'detected':int(rc)==1}
m['detected_by']=d; json.dump(m,open(p,'w'),indent=1)
PY
