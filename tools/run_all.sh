#!/bin/sh
# tools/run_all.sh [quick|thorough] [jobs]: run every claimed check against /repo, rewrite evidence/, print one summary line per property
TIER=${1:-quick}; J=${2:-0}
cd "$(dirname "$0")/.."
for i in 01 02 03 04 05 06 07 08 09 10 11 12 13 14 15 16 17 18 19; do
  s=$(date +%s)
  ./check C$i --tier $TIER ${J:+--jobs $J} > .scratch/run_C$i.$TIER.log 2>&1; rc=$?
  e=$(date +%s)
  echo "C$i exit=$rc wall=$((e-s))s $(grep -c '^VIOLATION' .scratch/run_C$i.$TIER.log) VIOLATION $(grep -c '^KNOWN-FINDING' .scratch/run_C$i.$TIER.log) KNOWN $(grep -c '^HARNESS' .scratch/run_C$i.$TIER.log) HARNESS $(grep -c '^INCONCLUSIVE' .scratch/run_C$i.$TIER.log) INCONCL | $(grep -m1 '^C[0-9][0-9] tier' .scratch/run_C$i.$TIER.log | cut -c1-230)"
done
