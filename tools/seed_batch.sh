#!/bin/sh
# tools/seed_batch.sh <seed id>... : verify each delivered change (/tmp/seed_out/<id>) and, if kept, run the quick check of its property against it
for s in "$@"; do
  p=$(echo $s | cut -c1-3)
  if [ ! -f /tmp/seed_out/$s/patch.diff ]; then echo "$s: nothing delivered"; continue; fi
  /verif/tools/seed_verify.sh /tmp/seed_out/$s $s $p
  if [ -f /verif/seeded/$s/meta.json ]; then VERIF_JOBS=${VERIF_JOBS:-8} /verif/tools/seed_detect_wt.sh $s $p; fi
done
