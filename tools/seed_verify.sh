#!/bin/sh
# tools/seed_verify.sh <seed dir with patch.diff demo.py notes.txt> <seed id> <property id>
# Confirms in a scratch worktree of /repo HEAD: demo passes without the change, fails with it, the 4 baseline test files still give 241 passed.
# On success copies the change to /verif/seeded/<seed id>/ with meta.json.
set -u
SRC=$1; SID=$2; PID=$3
WT=/tmp/wt/verify_$SID
git -C /repo worktree remove --force $WT >/dev/null 2>&1
git -C /repo worktree add -q --detach $WT HEAD || exit 2
cd $WT
cp $SRC/demo.py $WT/_demo.py
/venv/bin/python _demo.py > /tmp/seed_$SID.before.log 2>&1; B=$?
if ! git apply $SRC/patch.diff; then echo "$SID: patch does not apply to current /repo HEAD"; cd /; git -C /repo worktree remove --force $WT; exit 3; fi
/venv/bin/python _demo.py > /tmp/seed_$SID.after.log 2>&1; A=$?
OMP_NUM_THREADS=4 /venv/bin/python -m pytest -q -p no:cacheprovider --timeout=900 tests/test_dtcwt.py tests/test_dwt1d.py tests/test_dwt.py tests/test_scatnet_fwd.py > /tmp/seed_$SID.tests.log 2>&1
T=$(tail -1 /tmp/seed_$SID.tests.log)
cd /
git -C /repo worktree remove --force $WT
echo "$SID: demo before exit=$B after exit=$A tests: $T"
case "$T" in *"241 passed"*) TP=1;; *) TP=0;; esac
if [ "$B" = 0 ] && [ "$A" != 0 ] && [ "$TP" = 1 ]; then
  mkdir -p /verif/seeded/$SID
  cp $SRC/patch.diff $SRC/demo.py /verif/seeded/$SID/
  [ -f $SRC/notes.txt ] && cp $SRC/notes.txt /verif/seeded/$SID/
  python3 - "$SID" "$PID" "$T" <<'PY'
import json,sys,os
sid,pid,t=sys.argv[1:4]
notes=open('/verif/seeded/%s/notes.txt'%sid).read() if os.path.exists('/verif/seeded/%s/notes.txt'%sid) else ''
json.dump({'seed':sid,'property':pid,'needs_to_manifest':notes.strip(),
 'confirmed':{'demo_passes_without_change':True,'demo_fails_with_change':True,'baseline_tests_with_change':t.strip(),
              'how':'tools/seed_verify.sh in a scratch worktree of /repo HEAD (fix: commits included): demo.py before/after git apply, then pytest on the 4 baseline test files'},
 'detected_by':None}, open('/verif/seeded/%s/meta.json'%sid,'w'), indent=1)
PY
  echo "$SID: KEPT in /verif/seeded/$SID"
else
  echo "$SID: REJECTED"
fi
