#!/bin/sh
# Build the overlay venv (python of /venv + z3-solver, crosshair-tool from the offline wheelhouse).
set -e
cd "$(dirname "$0")"
exec ./tools/mkvenv.sh
