"""Symbolic tensor library posing as `torch` (the subset pytorch_wavelets and plausible edits of it use).

A Tensor wraps a NumPy array: dtype=object holding exact `Poly` values for floating dtypes, native
NumPy integer/bool arrays for index tensors.  NumPy's view/copy model stands in for torch's.
Errors torch raises for bad shapes/dtypes/sizes are raised as the same exception classes.
"""
import math
import numpy as np
from fractions import Fraction
from . import poly as P
from .poly import Poly, Unsupported, ZERO

# ------------------------------------------------------------------------------------------
# dtypes, device, Size
# ------------------------------------------------------------------------------------------


class dtype:
    def __init__(self, name, kind, bits, npf=None):
        self.name = name; self.kind = kind; self.bits = bits; self.npf = npf
        self.is_floating_point = kind == 'f'

    def __repr__(self):
        return 'torch.' + self.name


float16 = half = dtype('float16', 'f', 16, np.float16)
bfloat16 = dtype('bfloat16', 'f', 16, None)
float32 = float_ = dtype('float32', 'f', 32, np.float32)
float64 = double = dtype('float64', 'f', 64, np.float64)
int64 = long = dtype('int64', 'i', 64, np.int64)
int32 = int_ = dtype('int32', 'i', 32, np.int32)
uint8 = dtype('uint8', 'i', 8, np.uint8)
bool_ = dtype('bool', 'b', 1, np.bool_)
_FRANK = {'float16': 1, 'bfloat16': 1, 'float32': 2, 'float64': 3}
_DEFAULT = [float32]


def get_default_dtype():
    return _DEFAULT[0]


def set_default_dtype(d):
    if not isinstance(d, dtype) or d.kind != 'f':
        raise TypeError('only floating-point types are supported as the default type')
    _DEFAULT[0] = d


def promote(a, b):
    if a is b:
        return a
    if a.kind == 'f' and b.kind == 'f':
        if _FRANK[a.name] == _FRANK[b.name]:
            return float32  # half + bfloat16
        return a if _FRANK[a.name] > _FRANK[b.name] else b
    if a.kind == 'f':
        return a
    if b.kind == 'f':
        return b
    if a.kind == 'b':
        return b
    if b.kind == 'b':
        return a
    return a if a.bits >= b.bits else b


class device:
    def __init__(self, type='cpu', index=None):
        if isinstance(type, device):
            type, index = type.type, type.index
        if isinstance(type, str) and ':' in type:
            type, index = type.split(':'); index = int(index)
        self.type = type; self.index = index

    def __eq__(self, o):
        o = device(o) if not isinstance(o, device) else o
        return self.type == o.type and self.index == o.index

    def __hash__(self):
        return hash((self.type, self.index))

    def __repr__(self):
        return "device(type='%s')" % self.type


CPU = device('cpu')


class Size(tuple):
    def __new__(cls, x=()):
        return tuple.__new__(cls, tuple(int(v) for v in x))

    def numel(self):
        n = 1
        for v in self:
            n *= v
        return n

    def __getitem__(self, i):
        r = tuple.__getitem__(self, i)
        return Size(r) if isinstance(i, slice) else r

    def __repr__(self):
        return 'torch.Size(%s)' % (list(self),)


# ------------------------------------------------------------------------------------------
# global engine state
# ------------------------------------------------------------------------------------------

class _State:
    def __init__(self):
        self.reset()

    def reset(self):
        self.grad_enabled = True
        self.tape = []            # autograd nodes
        self.writes = []          # write-barrier log: (origin label, op name)
        self.casts = []           # precision-changing casts of symbolic values
        self.overlap_unspecified = 0
        self.in_function = 0
        self.funcs_entered = set()
        self.np_alias = []        # (caller's ndarray, tensor sharing its memory) from as_tensor / from_numpy
        self.uninit = set()       # atoms standing for never-written memory (torch.empty / new_empty / empty_like)


STATE = _State()


def reset_engine():
    P.reset()
    P.PATHS.reset()
    STATE.reset()
    _DEFAULT[0] = float32


class no_grad:
    def __enter__(self):
        self.prev = STATE.grad_enabled; STATE.grad_enabled = False

    def __exit__(self, *a):
        STATE.grad_enabled = self.prev

    def __call__(self, f):
        def g(*a, **k):
            with no_grad():
                return f(*a, **k)
        return g


class enable_grad:
    def __enter__(self):
        self.prev = STATE.grad_enabled; STATE.grad_enabled = True

    def __exit__(self, *a):
        STATE.grad_enabled = self.prev


class set_grad_enabled:
    def __init__(self, mode):
        self.prev = STATE.grad_enabled; STATE.grad_enabled = bool(mode)

    def __enter__(self):
        pass

    def __exit__(self, *a):
        STATE.grad_enabled = self.prev


def is_grad_enabled():
    return STATE.grad_enabled


# ------------------------------------------------------------------------------------------
# helpers
# ------------------------------------------------------------------------------------------

_vconst = np.frompyfunc(lambda v: Poly.const(v), 1, 1)


def _obj_from_numeric(a):
    """numeric numpy array -> object array of constant Polys (exact)"""
    a = np.asarray(a)
    out = np.empty(a.shape, dtype=object)
    if a.size:
        flat = out.reshape(-1) if out.ndim else None
        if a.ndim == 0:
            out[()] = Poly.const(a.item())
        else:
            src = a.reshape(-1)
            tmp = [Poly.const(v.item() if isinstance(v, np.generic) else v) for v in src]
            flat = np.empty(len(tmp), dtype=object)
            flat[:] = tmp
            out = flat.reshape(a.shape)
    return out


def _zeros_obj(shape):
    out = np.empty(tuple(shape), dtype=object)
    out[...] = ZERO
    return out


def _full_obj(shape, p):
    out = np.empty(tuple(shape), dtype=object)
    out[...] = p
    return out


def _round_to(v, d):
    """round an exact rational constant to the given float dtype (exactly representable result)"""
    if d is float64:
        return Fraction(float(v))
    if d is float32:
        return Fraction(float(np.float32(float(v))))
    if d is float16:
        return Fraction(float(np.float16(float(v))))
    if d is bfloat16:
        f = np.float32(float(v)).view(np.uint32)
        f = np.uint32((int(f) + 0x7FFF + ((int(f) >> 16) & 1)) & 0xFFFF0000)
        return Fraction(float(f.view(np.float32)))
    raise Unsupported('rounding to %r' % d)


def _shape_arg(sh):
    if len(sh) == 1 and isinstance(sh[0], (tuple, list, Size)):
        sh = tuple(sh[0])
    return tuple(int(s) for s in sh)


def _any_rg(ts):
    if not STATE.grad_enabled:
        return False
    for t in ts:
        if isinstance(t, Tensor) and t.requires_grad:
            return True
    return False


# ------------------------------------------------------------------------------------------
# Tensor
# ------------------------------------------------------------------------------------------

class Tensor:
    __array_priority__ = 20000
    __array_ufunc__ = None

    def __init__(self, a, dtype=None, requires_grad=False, base=None, origin=None, grad_fn=None):
        self.a = a
        self.dtype = dtype
        self.requires_grad = requires_grad
        self._base = base            # root tensor this one is a view of
        self._origin = origin        # label for the write barrier (roots only)
        self.grad_fn = grad_fn
        self.grad = None
        self.device = CPU

    # ---- construction helpers -----------------------------------------------------------
    def _view(self, a):
        """result aliasing self's storage"""
        root = self._base if self._base is not None else self
        t = Tensor(a, self.dtype, base=root)
        if STATE.grad_enabled and self.requires_grad:
            t.requires_grad = True; t.grad_fn = 'view'
        return t

    def _fresh(self, a, dtype=None, parents=()):
        t = Tensor(a, dtype or self.dtype)
        if (t.dtype.kind == 'f') and _any_rg((self,) + tuple(parents)):
            t.requires_grad = True; t.grad_fn = 'op'
        return t

    def _maybe_view(self, a):
        if isinstance(a, np.ndarray) and np.shares_memory(a, self.a):
            return self._view(a)
        if not isinstance(a, np.ndarray):
            b = np.empty((), dtype=self.a.dtype); b[()] = a; a = b
        return self._fresh(a)

    @property
    def is_leaf(self):
        return self.grad_fn is None

    @property
    def origin(self):
        r = self._base if self._base is not None else self
        return r._origin

    # ---- metadata -----------------------------------------------------------------------
    @property
    def shape(self):
        return Size(self.a.shape)

    def size(self, dim=None):
        return self.shape if dim is None else self.a.shape[dim]

    @property
    def ndim(self):
        return self.a.ndim

    def dim(self):
        return self.a.ndim

    ndimension = dim

    def numel(self):
        return int(self.a.size)

    nelement = numel

    def __len__(self):
        if self.a.ndim == 0:
            raise TypeError('len() of a 0-d tensor')
        return self.a.shape[0]

    def stride(self, dim=None):
        isz = self.a.itemsize
        s = tuple(v // isz for v in self.a.strides)
        return s if dim is None else s[dim]

    def is_contiguous(self):
        return bool(self.a.flags['C_CONTIGUOUS'])

    def is_floating_point(self):
        return self.dtype.kind == 'f'

    def data_ptr(self):
        return self.a.__array_interface__['data'][0]

    def element_size(self):
        return self.dtype.bits // 8

    @property
    def data(self):
        t = Tensor(self.a, self.dtype, base=self._base if self._base is not None else self)
        return t

    @property
    def is_cuda(self):
        return False

    def get_device(self):
        return -1

    def __repr__(self):
        return 'symtensor(shape=%s, dtype=%s)' % (list(self.a.shape), self.dtype.name)

    def __hash__(self):
        return id(self)

    # ---- indexing -----------------------------------------------------------------------
    @staticmethod
    def _ix(i):
        if not isinstance(i, tuple):
            i = (i,)
        out = []
        for k in i:
            if isinstance(k, Tensor):
                if k.dtype.kind == 'f':
                    raise IndexError('tensors used as indices must be long, int, byte or bool tensors')
                k = k.a
                if k.ndim == 0:
                    k = k.item()
            elif isinstance(k, np.ndarray) and k.dtype.kind == 'f':
                k = k.astype(np.int64)
            elif isinstance(k, (list,)):
                k = np.asarray(k)
                if k.dtype.kind == 'f':
                    k = k.astype(np.int64)
            elif isinstance(k, (np.integer,)):
                k = int(k)
            out.append(k)
        return tuple(out)

    def __getitem__(self, i):
        r = self.a[self._ix(i)]
        return self._maybe_view(r)

    def _check_inplace(self, opname):
        root = self._base if self._base is not None else self
        if STATE.grad_enabled and root.requires_grad and root.grad_fn is None:
            raise RuntimeError('a view of a leaf Variable that requires grad is being used in an in-place operation.'
                               if root is not self else
                               'a leaf Variable that requires grad is being used in an in-place operation.')
        STATE.writes.append((root._origin, opname))

    def __setitem__(self, i, v):
        self._check_inplace('setitem')
        if isinstance(v, Tensor):
            if v.requires_grad and STATE.grad_enabled and not self.requires_grad:
                self.requires_grad = True; self.grad_fn = 'op'
            v = v.a
            if v.dtype != object and self.a.dtype == object:
                v = _obj_from_numeric(v)
        elif not isinstance(v, np.ndarray):
            v = Poly.const(v) if self.a.dtype == object else v
        ix = self._ix(i)
        try:
            self.a[ix] = v
        except ValueError as e:
            raise RuntimeError('shape mismatch in index assignment: %s' % e)

    # ---- arithmetic ---------------------------------------------------------------------
    def _coerce(self, o):
        """-> (array, dtype) for the right operand"""
        if isinstance(o, Tensor):
            return o.a, o.dtype, o
        if isinstance(o, np.ndarray):
            raise TypeError('unsupported operand: numpy array with a Tensor')
        if isinstance(o, Poly):
            return o, None, None
        if isinstance(o, (bool, int, float, Fraction, np.generic)):
            if isinstance(o, (float, np.floating)) and not math.isfinite(float(o)):
                raise Unsupported('non-finite scalar operand')
            return P._frac(o), None, None
        return NotImplemented, None, None

    def _bin(self, o, f, reverse=False):
        oa, od, ot = self._coerce(o)
        if oa is NotImplemented:
            return NotImplemented
        a = self.a
        rd = self.dtype
        if od is not None:
            if od is not rd:
                # torch: 0-dim tensors do not participate in promotion within a category
                if od.kind == rd.kind and ot.a.ndim == 0 and a.ndim > 0:
                    pass
                elif od.kind == rd.kind and a.ndim == 0 and ot.a.ndim > 0:
                    rd = od
                else:
                    rd = promote(rd, od)
        elif rd.kind != 'f' and isinstance(o, (float, Fraction, np.floating, Poly)):
            rd = get_default_dtype()
        if rd.kind == 'f':
            if a.dtype != object:
                a = _obj_from_numeric(a)
            if isinstance(oa, np.ndarray) and oa.dtype != object:
                oa = _obj_from_numeric(oa)
        else:
            if isinstance(oa, Fraction):
                oa = int(oa)
        try:
            r = f(oa, a) if reverse else f(a, oa)
        except ValueError as e:
            raise RuntimeError('The size of tensor a must match the size of tensor b: %s' % e)
        if not isinstance(r, np.ndarray):
            b = np.empty((), dtype=object if rd.kind == 'f' else None); b[()] = r; r = b
        return self._fresh(r, rd, parents=(ot,) if ot is not None else ())

    def __add__(self, o): return self._bin(o, lambda a, b: a + b)
    def __radd__(self, o): return self._bin(o, lambda a, b: a + b, True)
    def __sub__(self, o): return self._bin(o, lambda a, b: a - b)
    def __rsub__(self, o): return self._bin(o, lambda a, b: a - b, True)
    def __mul__(self, o): return self._bin(o, lambda a, b: a * b)
    def __rmul__(self, o): return self._bin(o, lambda a, b: a * b, True)

    def __truediv__(self, o):
        r = self._bin(o, lambda a, b: a / b)
        if r is not NotImplemented and r.dtype.kind != 'f':
            raise Unsupported('integer true division')
        return r

    def __rtruediv__(self, o):
        return self._bin(o, lambda a, b: a / b, True)

    def __pow__(self, n):
        if isinstance(n, Tensor):
            raise Unsupported('tensor exponent')
        return self._bin(n, lambda a, b: a ** b)

    def __neg__(self):
        return self._fresh(-self.a)

    def __pos__(self):
        return self

    def __matmul__(self, o):
        return matmul(self, o)

    add = __add__; sub = __sub__; mul = __mul__; div = __truediv__; pow = __pow__; neg = __neg__

    # in-place
    def _ibin(self, o, f, name):
        self._check_inplace(name)
        if isinstance(o, Tensor) and np.shares_memory(self.a, o.a):
            same = (o.a.shape == self.a.shape and o.a.strides == self.a.strides and
                    o.a.__array_interface__['data'][0] == self.a.__array_interface__['data'][0])
            if not same:
                if _dense(self.a) and _dense(o.a):
                    raise RuntimeError('unsupported operation: some elements of the input tensor and the '
                                       'written-to tensor refer to a single memory location. Please clone() '
                                       'the tensor before performing the operation.')
                STATE.overlap_unspecified += 1
        r = self._bin(o, f)
        if r is NotImplemented:
            return r
        if r.a.shape != self.a.shape:
            raise RuntimeError("output with shape %s doesn't match the broadcast shape %s" % (list(self.a.shape), list(r.a.shape)))
        if r.dtype is not self.dtype and not (r.dtype.kind == 'f' and self.dtype.kind == 'f' and
                                              _FRANK[r.dtype.name] <= _FRANK[self.dtype.name]):
            if r.dtype.kind == 'f' and self.dtype.kind != 'f':
                raise RuntimeError("result type Float can't be cast to the desired output type Long")
        self.a[...] = r.a
        if r.requires_grad and not self.requires_grad:
            self.requires_grad = True; self.grad_fn = 'op'
        return self

    def __iadd__(self, o): return self._ibin(o, lambda a, b: a + b, 'iadd')
    def __isub__(self, o): return self._ibin(o, lambda a, b: a - b, 'isub')
    def __imul__(self, o): return self._ibin(o, lambda a, b: a * b, 'imul')
    def __itruediv__(self, o): return self._ibin(o, lambda a, b: a / b, 'idiv')
    add_ = __iadd__; sub_ = __isub__; mul_ = __imul__; div_ = __itruediv__

    def zero_(self):
        self._check_inplace('zero_')
        self.a[...] = ZERO if self.a.dtype == object else 0
        return self

    def fill_(self, v):
        self._check_inplace('fill_')
        self.a[...] = Poly.const(v) if self.a.dtype == object else v
        return self

    def copy_(self, o):
        self._check_inplace('copy_')
        src = o.a
        if src.dtype != object and self.a.dtype == object:
            src = _obj_from_numeric(src)
        self.a[...] = src
        return self

    # comparisons (elementwise) -> bool tensors of Conds are not represented; only constants
    def _cmp(self, o, op):
        oa, od, ot = self._coerce(o)
        if oa is NotImplemented:
            return NotImplemented
        if self.a.dtype != object and not (isinstance(oa, np.ndarray) and oa.dtype == object):
            f = {'lt': np.less, 'le': np.less_equal, 'gt': np.greater, 'ge': np.greater_equal,
                 'eq': np.equal, 'ne': np.not_equal}[op]
            return Tensor(f(self.a, float(oa) if isinstance(oa, Fraction) else oa), bool_)
        a = self.a if self.a.dtype == object else _obj_from_numeric(self.a)
        if isinstance(oa, np.ndarray):
            b = oa if oa.dtype == object else _obj_from_numeric(oa)
        else:
            b = _full_obj((), P.as_poly(oa))
        a, b = np.broadcast_arrays(a, b)
        out = np.empty(a.shape, dtype=object)
        for idx in np.ndindex(*a.shape):
            out[idx] = a[idx].cmp(op, b[idx])
        if all(isinstance(v, bool) for v in out.reshape(-1)):
            return Tensor(out.astype(bool), bool_)
        return CondTensor(out)

    def __lt__(self, o): return self._cmp(o, 'lt')
    def __le__(self, o): return self._cmp(o, 'le')
    def __gt__(self, o): return self._cmp(o, 'gt')
    def __ge__(self, o): return self._cmp(o, 'ge')
    def eq(self, o): return self._cmp(o, 'eq')
    def ne(self, o): return self._cmp(o, 'ne')
    __eq__ = eq
    __ne__ = ne

    def __bool__(self):
        if self.a.size != 1:
            raise RuntimeError('Boolean value of Tensor with more than one value is ambiguous')
        v = self.a.reshape(-1)[0]
        return bool(v)

    def nonzero(self, as_tuple=False):
        return nonzero(self, as_tuple=as_tuple)

    def item(self):
        if self.a.size != 1:
            raise RuntimeError('a Tensor with %d elements cannot be converted to Scalar' % self.a.size)
        v = self.a.reshape(-1)[0]
        if isinstance(v, Poly):
            if v.is_const():
                return float(v.const_value())
            return SymScalar(v)
        return v.item() if isinstance(v, np.generic) else v

    def __float__(self):
        return float(self.item())

    def __int__(self):
        return int(self.item())

    def __index__(self):
        if self.dtype.kind == 'f':
            raise TypeError('only integer tensors of a single element can be converted to an index')
        return int(self.item())

    def tolist(self):
        if self.a.dtype == object:
            return np.vectorize(lambda p: float(p), otypes=[float])(self.a).tolist()
        return self.a.tolist()

    def numpy(self):
        if self.a.dtype == object:
            try:
                return np.vectorize(lambda p: float(p), otypes=[float])(self.a).astype(self.dtype.npf or np.float32)
            except Unsupported:
                raise Unsupported('.numpy() of a symbolic tensor')
        return self.a

    def __array__(self, dtype=None, copy=None):
        r = self.numpy()
        return r.astype(dtype) if dtype is not None else r

    # ---- shape ops ----------------------------------------------------------------------
    def reshape(self, *sh):
        sh = _shape_arg(sh)
        try:
            r = self.a.reshape(sh)
        except ValueError:
            raise RuntimeError("shape '%s' is invalid for input of size %d" % (list(sh), self.a.size))
        return self._maybe_view(r)

    def view(self, *sh):
        if len(sh) == 1 and isinstance(sh[0], dtype):
            raise Unsupported('view(dtype)')
        sh = _shape_arg(sh)
        if -1 in sh:
            known = 1
            for s in sh:
                if s != -1:
                    known *= s
            if known == 0 or self.a.size % known:
                raise RuntimeError("shape '%s' is invalid for input of size %d" % (list(sh), self.a.size))
            sh = tuple(self.a.size // known if s == -1 else s for s in sh)
        n = 1
        for s in sh:
            n *= s
        if n != self.a.size:
            raise RuntimeError("shape '%s' is invalid for input of size %d" % (list(sh), self.a.size))
        v = self.a.view()
        try:
            v.shape = sh
        except AttributeError:
            raise RuntimeError("view size is not compatible with input tensor's size and stride (at least one "
                               "dimension spans across two contiguous subspaces). Use .reshape(...) instead.")
        return self._view(v)

    def view_as(self, o):
        return self.view(*o.shape)

    def reshape_as(self, o):
        return self.reshape(*o.shape)

    def contiguous(self, *a, **k):
        if self.a.flags['C_CONTIGUOUS']:
            return self
        return self._fresh(np.ascontiguousarray(self.a))

    def clone(self, *a, **k):
        return self._fresh(self.a.copy())

    def detach(self):
        return Tensor(self.a, self.dtype, base=self._base if self._base is not None else self)

    def requires_grad_(self, flag=True):
        if flag and self.dtype.kind != 'f':
            raise RuntimeError('only Tensors of floating point dtype can require gradients')
        if not self.is_leaf and not flag:
            raise RuntimeError('you can only change requires_grad flags of leaf variables.')
        self.requires_grad = flag
        return self

    def transpose(self, i, j):
        return self._view(np.swapaxes(self.a, i, j))

    swapaxes = transpose

    def t(self):
        if self.a.ndim > 2:
            raise RuntimeError('t() expects a tensor with <= 2 dimensions')
        return self._view(self.a.T)

    @property
    def T(self):
        return self._view(self.a.T)

    @property
    def mT(self):
        return self._view(np.swapaxes(self.a, -1, -2))

    def permute(self, *dims):
        dims = _shape_arg(dims)
        return self._view(np.transpose(self.a, dims))

    def movedim(self, s, d):
        return self._view(np.moveaxis(self.a, s, d))

    moveaxis = movedim

    def squeeze(self, dim=None):
        if dim is None:
            return self._view(np.squeeze(self.a))
        if self.a.shape[dim] != 1:
            return self
        return self._view(np.squeeze(self.a, axis=dim))

    def unsqueeze(self, dim):
        if dim < 0:
            dim = self.a.ndim + 1 + dim
        return self._view(np.expand_dims(self.a, dim))

    def __getattr__(self, name):
        # only reached when normal lookup fails
        if name.startswith('_'):
            raise AttributeError(name)
        raise P.UnsupportedAttr('Tensor.%s is outside the symbolic engine' % name)

    def unflatten(self, dim, sizes):
        nd = self.a.ndim
        d = dim % nd
        sizes = tuple(int(v) for v in sizes)
        if -1 in sizes:
            known = int(np.prod([v for v in sizes if v != -1])) or 1
            sizes = tuple(self.a.shape[d] // known if v == -1 else v for v in sizes)
        if int(np.prod(sizes)) != self.a.shape[d]:
            raise RuntimeError('unflatten: Provided sizes %s don\'t multiply up to the size of dim %d (%d) in the input tensor' % (list(sizes), d, self.a.shape[d]))
        return self.view(*(self.a.shape[:d] + sizes + self.a.shape[d + 1:]))

    def var(self, dim=None, unbiased=True, keepdim=False, correction=None):
        n = self.a.size if dim is None else int(np.prod([self.a.shape[d] for d in ([dim] if isinstance(dim, int) else dim)]))
        corr = (1 if unbiased else 0) if correction is None else correction
        m = mean(self, dim, True) if dim is not None else mean(self)
        dlt = self - m
        ss = sum_(dlt * dlt, dim, keepdim) if dim is not None else sum_(dlt * dlt)
        if n - corr <= 0:
            raise Unsupported('variance with non-positive degrees of freedom')
        return ss / (n - corr)

    def std(self, dim=None, unbiased=True, keepdim=False, correction=None):
        return sqrt(self.var(dim, unbiased, keepdim, correction))

    def flatten(self, start_dim=0, end_dim=-1):
        nd = self.a.ndim
        s = start_dim % nd if nd else 0
        e = end_dim % nd if nd else 0
        sh = self.a.shape[:s] + (-1,) + self.a.shape[e + 1:]
        return self.reshape(*sh)

    def expand(self, *sh):
        sh = _shape_arg(sh)
        nd = len(sh)
        cur = (1,) * (nd - self.a.ndim) + self.a.shape
        tgt = tuple(c if s == -1 else s for s, c in zip(sh, cur))
        try:
            return self._view(np.broadcast_to(self.a, tgt))
        except ValueError as e:
            raise RuntimeError('The expanded size of the tensor must match the existing size: %s' % e)

    def expand_as(self, o):
        return self.expand(*o.shape)

    def repeat(self, *r):
        r = _shape_arg(r)
        if len(r) < self.a.ndim:
            raise RuntimeError('Number of dimensions of repeat dims can not be smaller than number of dimensions of tensor')
        return self._fresh(np.tile(self.a, r))

    def repeat_interleave(self, repeats, dim=None, output_size=None):
        if isinstance(repeats, Tensor):
            if repeats.dtype.kind != 'i':
                raise RuntimeError('repeats has to be Long tensor')
            repeats = repeats.a.astype(int)
            if repeats.ndim == 0:
                repeats = int(repeats)
        a = self.a
        if dim is None:
            a = a.reshape(-1); dim = 0
        try:
            r = np.repeat(a, repeats, axis=dim)
        except ValueError as e:
            raise RuntimeError('repeats must have the same size as input along dim: %s' % e)
        return self._fresh(r)

    def _imod(self, o, reverse=False):
        # integer remainder / floor division on constant index tensors (Python sign convention, as torch.remainder / floor_divide)
        oa = o.a if isinstance(o, Tensor) else o
        if self.dtype.kind == 'f' or (isinstance(o, Tensor) and o.dtype.kind == 'f') or isinstance(oa, (float, Fraction, np.floating)):
            raise Unsupported('remainder / floor division of floating point tensors')
        return oa

    def __mod__(self, o):
        oa = self._imod(o)
        if np.any(np.asarray(oa) == 0):
            raise RuntimeError('ZeroDivisionError')
        return self._fresh(np.mod(self.a, oa))

    def __rmod__(self, o):
        oa = self._imod(o)
        if np.any(self.a == 0):
            raise RuntimeError('ZeroDivisionError')
        return self._fresh(np.mod(oa, self.a))

    def __floordiv__(self, o):
        oa = self._imod(o)
        if np.any(np.asarray(oa) == 0):
            raise RuntimeError('ZeroDivisionError')
        return self._fresh(np.floor_divide(self.a, oa))

    remainder = __mod__; floor_divide = __floordiv__

    def flip(self, *dims):
        dims = _shape_arg(dims)
        return self._fresh(np.flip(self.a, axis=dims).copy())

    def roll(self, shifts, dims=None):
        return self._fresh(np.roll(self.a, shifts, axis=dims))

    def unbind(self, dim=0):
        d = dim % self.a.ndim
        return tuple(self._maybe_view(self.a[(slice(None),) * d + (i,)]) for i in range(self.a.shape[d]))

    def split(self, n, dim=0):
        L = self.a.shape[dim]
        d = dim % self.a.ndim
        out = []
        if isinstance(n, int):
            sizes = [n] * (L // n) + ([L % n] if L % n else [])
        else:
            sizes = list(n)
            if sum(sizes) != L:
                raise RuntimeError('split_with_sizes expects split_sizes to sum exactly to %d' % L)
        s = 0
        for z in sizes:
            out.append(self._view(self.a[(slice(None),) * d + (slice(s, s + z),)]))
            s += z
        return tuple(out)

    def chunk(self, k, dim=0):
        L = self.a.shape[dim]
        n = -(-L // k)
        return self.split(n, dim)

    def narrow(self, dim, start, length):
        nd = self.a.ndim
        if not -nd <= dim < max(nd, 1):
            raise IndexError('Dimension out of range (expected to be in range of [%d, %d], but got %d)' % (-nd, nd - 1, dim))
        d = dim % nd
        n = self.a.shape[d]
        start = int(start); length = int(length)
        if length < 0:
            raise RuntimeError('narrow(): length must be non-negative.')
        if not -n <= start <= n:
            raise IndexError('start out of range (expected to be in range of [%d, %d], but got %d)' % (-n, n, start))
        if start < 0:
            start += n
        if start + length > n:
            raise RuntimeError('start (%d) + length (%d) exceeds dimension size (%d).' % (start, length, n))
        return self._view(self.a[(slice(None),) * d + (slice(start, start + length),)])

    def select(self, dim, index):
        d = dim % self.a.ndim
        return self._maybe_view(self.a[(slice(None),) * d + (index,)])

    def index_select(self, dim, idx):
        return index_select(self, dim, idx)

    # ---- dtype / device -----------------------------------------------------------------
    def to(self, *args, **kw):
        d = kw.get('dtype')
        for x in args:
            if isinstance(x, dtype):
                d = x
            elif isinstance(x, Tensor):
                d = x.dtype
            elif isinstance(x, (device, str)):
                if device(x).type != 'cpu':
                    raise Unsupported('non-CPU device')
        dev = kw.get('device')
        if dev is not None and device(dev).type != 'cpu':
            raise Unsupported('non-CPU device')
        if d is None or d is self.dtype:
            return self
        return self._cast(d)

    def _cast(self, d):
        if d.kind != 'f':
            if self.a.dtype == object:
                try:
                    vals = np.vectorize(lambda p: float(p), otypes=[float])(self.a)
                except Unsupported:
                    raise Unsupported('cast of a symbolic tensor to an integer dtype')
                return Tensor(np.trunc(vals).astype(d.npf), d)
            return Tensor(self.a.astype(d.npf), d)
        if self.a.dtype != object:
            return Tensor(_obj_from_numeric(self.a.astype(np.float64)), d)
        down = _FRANK[d.name] < _FRANK[self.dtype.name]
        if not down:
            return self._fresh(self.a.copy(), d)
        eps = {'float32': Fraction(1, 2 ** 24), 'float16': Fraction(1, 2 ** 11), 'bfloat16': Fraction(1, 2 ** 8)}[d.name]
        out = np.empty(self.a.shape, dtype=object)
        for idx in np.ndindex(*self.a.shape):
            p = self.a[idx]
            if p.is_const():
                out[idx] = Poly.const(_round_to(p.const_value(), d))
            else:
                a = P.ATOMS.new('free', ('roundoff', eps))
                STATE.casts.append((a, d.name))
                out[idx] = p + p * Poly.var(a)
        return self._fresh(out, d)

    def type(self, d=None):
        if d is None:
            return 'torch.' + self.dtype.name
        return self.to(d)

    def double(self): return self.to(float64)
    def float(self): return self.to(float32)
    def half(self): return self.to(float16)
    def bfloat16(self): return self.to(bfloat16)
    def long(self): return self.to(int64)
    def int(self): return self.to(int32)
    def bool(self): return self.to(bool_)
    def cpu(self): return self
    def cuda(self, *a, **k): raise Unsupported('cuda')
    def type_as(self, o): return self.to(o.dtype)

    # ---- factories relative to self -----------------------------------------------------
    def new_zeros(self, *sh, dtype=None, device=None, requires_grad=False):
        sh = _shape_arg(sh)
        d = dtype or self.dtype
        a = _zeros_obj(sh) if d.kind == 'f' else np.zeros(sh, dtype=d.npf)
        return Tensor(a, d, requires_grad=requires_grad)

    def new_ones(self, *sh, dtype=None, device=None, requires_grad=False):
        sh = _shape_arg(sh)
        d = dtype or self.dtype
        a = _full_obj(sh, P.ONE) if d.kind == 'f' else np.ones(sh, dtype=d.npf)
        return Tensor(a, d, requires_grad=requires_grad)

    def new_empty(self, *sh, dtype=None, device=None, requires_grad=False):
        return _uninit(_shape_arg(sh), dtype or self.dtype, requires_grad)

    def new_full(self, sh, v, dtype=None, device=None, requires_grad=False):
        d = dtype or self.dtype
        a = _full_obj(tuple(sh), Poly.const(v)) if d.kind == 'f' else np.full(tuple(sh), v, dtype=d.npf)
        return Tensor(a, d, requires_grad=requires_grad)

    def new_tensor(self, data, dtype=None, device=None, requires_grad=False):
        return tensor(data, dtype=dtype or self.dtype, requires_grad=requires_grad)

    # ---- math ---------------------------------------------------------------------------
    def sqrt(self): return sqrt(self)
    def abs(self): return abs_(self)
    def sum(self, dim=None, keepdim=False, dtype=None): return sum_(self, dim, keepdim)
    def mean(self, dim=None, keepdim=False): return mean(self, dim, keepdim)
    def max(self, dim=None, keepdim=False): return max_(self, dim, keepdim)
    def min(self, dim=None, keepdim=False): return min_(self, dim, keepdim)
    def amax(self, dim=None, keepdim=False): return _reduce_minmax(self, dim, keepdim, P.pmax)
    def amin(self, dim=None, keepdim=False): return _reduce_minmax(self, dim, keepdim, P.pmin)
    def clamp(self, min=None, max=None): return clamp(self, min, max)
    def relu(self): return clamp(self, 0, None)
    def square(self): return self * self
    def rsqrt(self): return 1 / sqrt(self)
    def reciprocal(self): return 1 / self
    def matmul(self, o): return matmul(self, o)
    def norm(self, p=2, dim=None, keepdim=False):
        if p != 2:
            raise Unsupported('norm p=%r' % (p,))
        return sqrt(sum_(self * self, dim, keepdim))

    def _truth_fold(self, op):
        # element != 0 for every element, folded with OR (any) / AND (all); undecided elements give a condition
        r = (op == 'and')
        for p in self.a.reshape(-1):
            c = p.cmp('ne', 0)
            if isinstance(c, bool):
                if op == 'or' and c:
                    return True
                if op == 'and' and not c:
                    return False
                continue
            r = c if isinstance(r, bool) else ((r | c) if op == 'or' else (r & c))
        return r

    def any(self, dim=None):
        if dim is not None:
            raise Unsupported('any(dim)')
        if self.a.dtype == object:
            r = self._truth_fold('or')
            return Tensor(np.array(r), bool_) if isinstance(r, bool) else _CondScalar(r)
        return Tensor(np.array(bool(self.a.any())), bool_)

    def all(self, dim=None):
        if dim is not None:
            raise Unsupported('all(dim)')
        if self.a.dtype == object:
            r = self._truth_fold('and')
            return Tensor(np.array(r), bool_) if isinstance(r, bool) else _CondScalar(r)
        return Tensor(np.array(bool(self.a.all())), bool_)

    def isnan(self):
        return Tensor(np.zeros(self.a.shape, dtype=bool), bool_)

    def isinf(self):
        return Tensor(np.zeros(self.a.shape, dtype=bool), bool_)

    def isfinite(self):
        return Tensor(np.ones(self.a.shape, dtype=bool), bool_)

    def backward(self, gradient=None, retain_graph=None, create_graph=False, inputs=None):
        from .autograd import tensor_backward
        tensor_backward(self, gradient)

    def register_hook(self, *a, **k):
        raise Unsupported('tensor hooks')

    def retain_grad(self):
        pass


class Parameter(Tensor):
    def __init__(self, data=None, requires_grad=True):
        if data is None:
            data = zeros(0)
        Tensor.__init__(self, data.a, data.dtype, requires_grad=requires_grad,
                        base=None, origin=data._origin)

    def __repr__(self):
        return 'Parameter(' + Tensor.__repr__(self) + ')'


class SymScalar(float):
    """what .item() of a symbolic element returns: behaves as an exact symbolic number in arithmetic"""
    def __new__(cls, p):
        o = float.__new__(cls, 0.0)
        o.p = p
        return o

    def _p(self, o):
        return o.p if isinstance(o, SymScalar) else o

    def __add__(self, o): return SymScalar(self.p + self._p(o))
    __radd__ = __add__
    def __sub__(self, o): return SymScalar(self.p - self._p(o))
    def __rsub__(self, o): return SymScalar(self._p(o) - self.p)
    def __mul__(self, o): return SymScalar(self.p * self._p(o))
    __rmul__ = __mul__
    def __truediv__(self, o): return SymScalar(self.p / self._p(o))
    def __rtruediv__(self, o): return SymScalar(P.as_poly(self._p(o)) / self.p)
    def __neg__(self): return SymScalar(-self.p)
    def __abs__(self): return SymScalar(P.absval(self.p))
    def __lt__(self, o): return self.p.cmp('lt', self._p(o))
    def __le__(self, o): return self.p.cmp('le', self._p(o))
    def __gt__(self, o): return self.p.cmp('gt', self._p(o))
    def __ge__(self, o): return self.p.cmp('ge', self._p(o))
    def __eq__(self, o): return self.p.cmp('eq', self._p(o))
    def __ne__(self, o): return self.p.cmp('ne', self._p(o))
    def __hash__(self): return hash(self.p)
    def __float__(self): return float(self.p)
    def __bool__(self): return bool(self.p)
    def __repr__(self): return 'SymScalar(%r)' % (self.p,)


class CondTensor:
    """elementwise comparison result with at least one undecided element"""
    def __init__(self, a):
        self.a = a

    @property
    def shape(self):
        return Size(self.a.shape)

    def _fold(self, op):
        it = iter(self.a.reshape(-1))
        r = next(it)
        for c in it:
            if isinstance(r, bool):
                if op == 'or':
                    r = True if r else c
                else:
                    r = c if r else False
            else:
                r = (r | c) if op == 'or' else (r & c)
        return r

    def any(self): return _CondScalar(self._fold('or'))
    def all(self): return _CondScalar(self._fold('and'))

    def __bool__(self):
        if self.a.size != 1:
            raise RuntimeError('Boolean value of Tensor with more than one value is ambiguous')
        return bool(self.a.reshape(-1)[0])

    def item(self):
        return bool(self)

    def __invert__(self):
        out = np.empty(self.a.shape, dtype=object)
        for idx in np.ndindex(*self.a.shape):
            c = self.a[idx]
            out[idx] = (not c) if isinstance(c, bool) else c.negate()
        return CondTensor(out)

    def __getitem__(self, i):
        r = self.a[i]
        if isinstance(r, np.ndarray):
            return CondTensor(r)
        b = np.empty((), dtype=object); b[()] = r
        return CondTensor(b)


class _CondScalar:
    def __init__(self, c): self.c = c
    def __bool__(self): return bool(self.c)
    def item(self): return bool(self.c)
    def __invert__(self):
        return _CondScalar((not self.c) if isinstance(self.c, bool) else self.c.negate())


def _dense(a):
    """torch's is_non_overlapping_and_dense for a numpy view (size-1 dims ignored)"""
    dims = [(st, sz) for st, sz in zip(a.strides, a.shape) if sz != 1]
    if not dims:
        return True
    dims.sort()
    exp = a.itemsize
    for st, sz in dims:
        if st != exp:
            return False
        exp *= sz
    return True


# ------------------------------------------------------------------------------------------
# factories and top-level functions
# ------------------------------------------------------------------------------------------

def is_tensor(x):
    return isinstance(x, Tensor)


def tensor(data, dtype=None, device=None, requires_grad=False):
    if device is not None and globals()['device'](device).type != 'cpu':
        raise Unsupported('non-CPU device')
    if isinstance(data, Tensor):
        t = data.clone().detach()
        t = t.to(dtype) if dtype is not None else t
        t.requires_grad = requires_grad
        return t
    if isinstance(data, (list, tuple)) and any(isinstance(v, Tensor) for v in _flatten(data)):
        raise Unsupported('torch.tensor of a list of tensors')
    a = np.array(data) if not isinstance(data, np.ndarray) else data
    if a.dtype == object:
        raise TypeError('not a sequence of numbers')
    if dtype is None:
        if a.dtype.kind == 'f':
            if isinstance(data, (np.ndarray, np.generic)):
                dtype = {2: float16, 4: float32, 8: float64}[a.dtype.itemsize]
            else:
                dtype = get_default_dtype()
        elif a.dtype.kind == 'b':
            dtype = bool_
        elif a.dtype.kind in 'iu':
            dtype = int64 if not isinstance(data, (np.ndarray, np.generic)) else \
                {1: uint8, 4: int32, 8: int64}.get(a.dtype.itemsize, int64)
        else:
            raise TypeError('unsupported data type %s' % a.dtype)
    if dtype.kind == 'f':
        vals = a.astype(np.float64)
        if vals.size and not np.isfinite(vals).all():
            raise Unsupported('non-finite constant tensor')
        if dtype is not float64:
            if dtype.npf is not None:
                vals = vals.astype(dtype.npf).astype(np.float64)
            else:
                vals = np.vectorize(lambda v: float(_round_to(Fraction(v), dtype)), otypes=[float])(vals) if vals.size else vals
        return Tensor(_obj_from_numeric(vals), dtype, requires_grad=requires_grad)
    return Tensor(a.astype(dtype.npf), dtype)


def _flatten(x):
    for v in x:
        if isinstance(v, (list, tuple)):
            yield from _flatten(v)
        else:
            yield v


def _np_dtype_of(a):
    return {2: float16, 4: float32, 8: float64}.get(a.dtype.itemsize) if a.dtype.kind == 'f' else None


def as_tensor(data, dtype=None, device=None):
    if isinstance(data, Tensor):
        return data.to(dtype) if dtype is not None else data
    t = tensor(data, dtype=dtype)
    if isinstance(data, np.ndarray) and data.dtype.kind == 'f' and (dtype is None or dtype is _np_dtype_of(data)):
        STATE.np_alias.append((data, t))      # torch shares the array's memory in this case
    return t


def from_numpy(a):
    t = tensor(a)
    if isinstance(a, np.ndarray) and a.dtype.kind == 'f':
        STATE.np_alias.append((a, t))
    return t


def sync_np_aliases():
    """tensors created by as_tensor / from_numpy share memory with the caller's NumPy array: after the harness has modified
    such an array in place, re-read it into the (object-array) storage of the aliasing tensor, in place"""
    for arr, t in STATE.np_alias:
        if t.a.dtype != object or t.a.shape != arr.shape:
            continue
        for idx in np.ndindex(*arr.shape):
            t.a[idx] = Poly.const(Fraction(float(arr[idx])))


def zeros(*sh, dtype=None, device=None, requires_grad=False, out=None):
    if device is not None and globals()['device'](device).type != 'cpu':
        raise Unsupported('non-CPU device')
    sh = _shape_arg(sh)
    d = dtype or get_default_dtype()
    a = _zeros_obj(sh) if d.kind == 'f' else np.zeros(sh, dtype=d.npf)
    return Tensor(a, d, requires_grad=requires_grad)


def ones(*sh, dtype=None, device=None, requires_grad=False):
    sh = _shape_arg(sh)
    d = dtype or get_default_dtype()
    a = _full_obj(sh, P.ONE) if d.kind == 'f' else np.ones(sh, dtype=d.npf)
    return Tensor(a, d, requires_grad=requires_grad)


def _uninit(sh, d, requires_grad=False):
    """torch.empty contract: the contents are arbitrary. Floating tensors get one fresh input atom per element (recorded in
    STATE.uninit), so that any dependence of a result on memory that was never written is visible to the checks."""
    sh = tuple(int(v) for v in sh)
    if d.kind != 'f':
        return Tensor(np.zeros(sh, dtype=d.npf), d)
    a = np.empty(sh, dtype=object)
    for idx in np.ndindex(*sh):
        i = P.ATOMS.new('in', ('uninit', idx))
        STATE.uninit.add(i)
        a[idx] = Poly.var(i)
    return Tensor(a, d, requires_grad=requires_grad)


def empty(*sh, dtype=None, device=None, requires_grad=False, **kw):
    return _uninit(_shape_arg(sh), dtype or get_default_dtype(), requires_grad)


def full(sh, v, dtype=None, device=None, requires_grad=False):
    d = dtype or (get_default_dtype() if isinstance(v, float) else int64)
    a = _full_obj(tuple(sh), Poly.const(v)) if d.kind == 'f' else np.full(tuple(sh), v, dtype=d.npf)
    return Tensor(a, d, requires_grad=requires_grad)


def zeros_like(t, dtype=None, device=None, requires_grad=False):
    return zeros(*t.shape, dtype=dtype or t.dtype, requires_grad=requires_grad)


def ones_like(t, dtype=None, device=None, requires_grad=False):
    return ones(*t.shape, dtype=dtype or t.dtype, requires_grad=requires_grad)


def empty_like(t, dtype=None, **kw):
    return _uninit(tuple(t.a.shape), dtype or t.dtype)


def full_like(t, v, dtype=None, **kw):
    return full(t.shape, v, dtype=dtype or t.dtype)


def arange(*args, dtype=None, device=None):
    a = np.arange(*args)
    if dtype is None:
        dtype = int64 if a.dtype.kind in 'iu' else get_default_dtype()
    return tensor(a, dtype=dtype)


def eye(n, m=None, dtype=None, device=None):
    return tensor(np.eye(n, m), dtype=dtype or get_default_dtype())


def _unsupported(name):
    def f(*a, **k):
        raise Unsupported(name)
    f.__name__ = name
    return f


def _common_dtype(ts):
    d = ts[0].dtype
    for t in ts[1:]:
        d = promote(d, t.dtype)
    return d


def _arr_as(t, d):
    if d.kind == 'f' and t.a.dtype != object:
        return _obj_from_numeric(t.a)
    return t.a


def cat(ts, dim=0, out=None):
    ts = list(ts)
    if not ts:
        raise RuntimeError('torch.cat(): expected a non-empty list of Tensors')
    for t in ts:
        if not isinstance(t, Tensor):
            raise TypeError('expected Tensor as element of sequence in argument 0, but got %s' % type(t).__name__)
    d = _common_dtype(ts)
    # torch skips legacy empty 1-D tensors of shape (0,)
    use = [t for t in ts if not (t.a.ndim == 1 and t.a.shape[0] == 0)] or ts[:1]
    nd = use[0].a.ndim
    if nd == 0:
        raise RuntimeError('zero-dimensional tensor (at position 0) cannot be concatenated')
    for i, t in enumerate(use):
        if t.a.ndim != nd:
            raise RuntimeError('Tensors must have same number of dimensions: got %d and %d' % (nd, t.a.ndim))
    if not -nd <= dim < nd:
        raise IndexError('Dimension out of range (expected to be in range of [%d, %d], but got %d)' % (-nd, nd - 1, dim))
    try:
        r = np.concatenate([_arr_as(t, d) for t in use], axis=dim)
    except ValueError as e:
        raise RuntimeError('Sizes of tensors must match except in dimension %d: %s' % (dim, e))
    return use[0]._fresh(r, d, parents=ts)


concat = concatenate = cat


def stack(ts, dim=0, out=None):
    ts = list(ts)
    if not ts:
        raise RuntimeError('stack expects a non-empty TensorList')
    d = _common_dtype(ts)
    s0 = ts[0].a.shape
    for t in ts:
        if t.a.shape != s0:
            raise RuntimeError('stack expects each tensor to be equal size, but got %s at entry 0 and %s' % (list(s0), list(t.a.shape)))
    nd = len(s0) + 1
    if not -nd <= dim < nd:
        raise IndexError('Dimension out of range (expected to be in range of [%d, %d], but got %d)' % (-nd, nd - 1, dim))
    r = np.stack([_arr_as(t, d) for t in ts], axis=dim)
    return ts[0]._fresh(r, d, parents=ts)


def unbind(t, dim=0):
    return t.unbind(dim)


def nonzero(t, as_tuple=False):
    """indices of non-zero elements; defined here for tensors whose elements are constants (filter taps, masks)"""
    a = t.a
    if a.dtype == object:
        flat = a.reshape(-1)
        if not all(p.is_const() for p in flat):
            raise Unsupported('torch.nonzero of a symbolic tensor')
        mask = np.array([bool(p.const_value()) for p in flat], dtype=bool).reshape(a.shape)
    else:
        mask = a != 0
    idx = np.argwhere(mask).astype(np.int64)
    if as_tuple:
        return tuple(Tensor(np.ascontiguousarray(idx[:, j]), int64) for j in range(idx.shape[1]))
    return Tensor(idx, int64)


def index_select(t, dim, idx):
    if not isinstance(idx, Tensor) or idx.dtype.kind != 'i':
        raise RuntimeError('index_select(): Expected dtype int32 or int64 for index')
    if idx.a.ndim > 1:
        raise RuntimeError('index_select(): Index is supposed to be a vector')
    try:
        r = np.take(t.a, idx.a, axis=dim)
    except IndexError as e:
        raise RuntimeError('index out of range in self: %s' % e)
    return t._fresh(r)


def reshape(t, sh):
    return t.reshape(*sh)


def transpose(t, i, j): return t.transpose(i, j)
def permute(t, dims): return t.permute(*dims)
def movedim(t, s, d): return t.movedim(s, d)
moveaxis = movedim
def squeeze(t, dim=None): return t.squeeze(dim)
def unsqueeze(t, dim): return t.unsqueeze(dim)
def flatten(t, start_dim=0, end_dim=-1): return t.flatten(start_dim, end_dim)
def flip(t, dims): return t.flip(*dims)
def roll(t, shifts, dims=None): return t.roll(shifts, dims)
def repeat_interleave(t, repeats, dim=None, output_size=None): return t.repeat_interleave(repeats, dim)
def remainder(t, o): return t % o
def split(t, n, dim=0): return t.split(n, dim)
def chunk(t, k, dim=0): return t.chunk(k, dim)
def clone(t): return t.clone()
def numel(t): return t.numel()
def neg(t): return -t
def add(a, b): return a + b
def sub(a, b): return a - b
def mul(a, b): return a * b
def div(a, b): return a / b
def square(t): return t * t
def pow(t, n): return t ** n
def narrow(t, dim, start, length): return t.narrow(dim, start, length)
def select(t, dim, index): return t.select(dim, index)
def t(x): return x.t()


def _map_obj(t, f):
    a = t.a if t.a.dtype == object else _obj_from_numeric(t.a)
    out = np.empty(a.shape, dtype=object)
    flat_in = a.reshape(-1)
    flat = [f(p) for p in flat_in]
    o = np.empty(len(flat), dtype=object)
    o[:] = flat
    return o.reshape(a.shape)


def sqrt(t):
    d = t.dtype if t.dtype.kind == 'f' else get_default_dtype()
    return t._fresh(_map_obj(t, P.sqrt), d)


def rsqrt(t):
    return 1 / sqrt(t)


def abs_(t):
    if t.a.dtype != object:
        return Tensor(np.abs(t.a), t.dtype)
    return t._fresh(_map_obj(t, P.absval))


def _norm_dims(dim, nd):
    if dim is None:
        return None
    if isinstance(dim, int):
        dim = (dim,)
    return tuple(d % nd for d in dim)


def sum_(t, dim=None, keepdim=False, dtype=None):
    a = t.a if t.a.dtype == object else (_obj_from_numeric(t.a) if t.dtype.kind == 'f' else t.a)
    dims = _norm_dims(dim, a.ndim)
    if a.dtype != object:
        return Tensor(np.asarray(a.sum(axis=dims, keepdims=keepdim)), int64)
    if a.size == 0:
        sh = np.zeros(a.shape).sum(axis=dims, keepdims=keepdim).shape
        return t._fresh(_zeros_obj(sh))
    if dims is None:
        dims = tuple(range(a.ndim))
    keep = [i for i in range(a.ndim) if i not in dims]
    b = np.transpose(a, keep + list(dims))
    oshape = tuple(a.shape[i] for i in keep)
    b = b.reshape(oshape + (-1,))
    out = np.empty(oshape, dtype=object)
    for idx in np.ndindex(*oshape):
        out[idx] = P.lincomb((P.F1, p) for p in b[idx])
    if keepdim:
        for d_ in sorted(dims):
            out = np.expand_dims(out, d_)
    return t._fresh(out)


def mean(t, dim=None, keepdim=False):
    if t.dtype.kind != 'f':
        raise RuntimeError('mean(): could not infer output dtype. Input dtype must be either a floating point or complex dtype.')
    s = sum_(t, dim, keepdim)
    n = t.a.size // max(s.a.size, 1)
    if n == 0:
        raise Unsupported('mean of an empty tensor (nan)')
    return s / n


def _reduce_minmax(t, dim, keepdim, f):
    if t.a.dtype != object:
        g = np.max if f is P.pmax else np.min
        return Tensor(np.asarray(g(t.a, axis=dim, keepdims=keepdim)), t.dtype)
    a = t.a
    if a.size == 0:
        raise RuntimeError('max(): Expected reduction dim to be specified for input.numel() == 0')
    dims = _norm_dims(dim, a.ndim)
    if dims is None:
        dims = tuple(range(a.ndim))
    keep = [i for i in range(a.ndim) if i not in dims]
    b = np.transpose(a, keep + list(dims))
    oshape = tuple(a.shape[i] for i in keep)
    b = b.reshape(oshape + (-1,))
    out = np.empty(oshape, dtype=object)
    for idx in np.ndindex(*oshape):
        r = None
        for p in b[idx]:
            r = p if r is None else f(r, p)
        out[idx] = r
    if keepdim:
        for d_ in sorted(dims):
            out = np.expand_dims(out, d_)
    return t._fresh(out)


def max_(t, dim=None, keepdim=False):
    if isinstance(dim, Tensor):
        return maximum(t, dim)
    if dim is not None:
        raise Unsupported('max with dim (returns indices)')
    return _reduce_minmax(t, None, keepdim, P.pmax)


def min_(t, dim=None, keepdim=False):
    if isinstance(dim, Tensor):
        return minimum(t, dim)
    if dim is not None:
        raise Unsupported('min with dim (returns indices)')
    return _reduce_minmax(t, None, keepdim, P.pmin)


def _ew2(a, b, f):
    aa = a.a if a.a.dtype == object else _obj_from_numeric(a.a)
    bb = b.a if b.a.dtype == object else _obj_from_numeric(b.a)
    aa, bb = np.broadcast_arrays(aa, bb)
    out = np.empty(aa.shape, dtype=object)
    for idx in np.ndindex(*aa.shape):
        out[idx] = f(aa[idx], bb[idx])
    return a._fresh(out, promote(a.dtype, b.dtype), parents=(b,))


def maximum(a, b): return _ew2(a, b, P.pmax)
def minimum(a, b): return _ew2(a, b, P.pmin)


def clamp(t, min=None, max=None):
    if t.dtype.kind != 'f' and t.a.dtype != object and all(v is None or isinstance(v, (int, np.integer)) for v in (min, max)):
        if min is None and max is None:
            raise RuntimeError("torch.clamp: At least one of 'min' or 'max' must not be None")
        return t._fresh(np.clip(t.a, min, max))   # constant index tensors stay integer arrays
    r = t
    if min is not None:
        r = r._fresh(_map_obj(r, lambda p: P.pmax(p, Poly.const(min))))
    if max is not None:
        r = r._fresh(_map_obj(r, lambda p: P.pmin(p, Poly.const(max))))
    return r


def relu(t, inplace=False):
    return clamp(t, 0, None)


def where(c, a=None, b=None):
    if a is None:
        raise Unsupported('where(cond) with one argument')
    if not isinstance(a, Tensor):
        a = tensor(a, dtype=b.dtype if isinstance(b, Tensor) else None)
    if not isinstance(b, Tensor):
        b = tensor(b, dtype=a.dtype)
    aa = a.a if a.a.dtype == object else _obj_from_numeric(a.a)
    bb = b.a if b.a.dtype == object else _obj_from_numeric(b.a)
    ca = c.a
    ca, aa, bb = np.broadcast_arrays(ca, aa, bb)
    out = np.empty(aa.shape, dtype=object)
    for idx in np.ndindex(*aa.shape):
        cv = ca[idx]
        out[idx] = P.ite(bool(cv) if not isinstance(cv, P.Cond) else cv, aa[idx], bb[idx])
    return a._fresh(out, promote(a.dtype, b.dtype), parents=(b,))


def matmul(a, b):
    if a.a.ndim < 1 or b.a.ndim < 1:
        raise RuntimeError('both arguments to matmul need to be at least 1D')
    aa = a.a if a.a.dtype == object else _obj_from_numeric(a.a)
    bb = b.a if b.a.dtype == object else _obj_from_numeric(b.a)
    if aa.shape[-1] != (bb.shape[-2] if bb.ndim > 1 else bb.shape[0]):
        raise RuntimeError('mat1 and mat2 shapes cannot be multiplied')
    r = np.matmul(aa, bb)
    if not isinstance(r, np.ndarray):
        x = np.empty((), dtype=object); x[()] = r; r = x
    return a._fresh(r, promote(a.dtype, b.dtype), parents=(b,))


mm = matmul
bmm = matmul


def einsum(eq, *ops):
    if len(ops) == 1 and isinstance(ops[0], (list, tuple)):
        ops = tuple(ops[0])
    arrs = [o.a if o.a.dtype == object else _obj_from_numeric(o.a) for o in ops]
    r = np.einsum(eq, *arrs)
    if not isinstance(r, np.ndarray):
        x = np.empty((), dtype=object); x[()] = r; r = x
    return ops[0]._fresh(r, _common_dtype(list(ops)), parents=ops[1:])


def allclose(a, b, rtol=1e-5, atol=1e-8):
    d = (a - b).a
    for p in d.reshape(-1):
        if not p.is_zero():
            if p.is_const():
                if abs(p.const_value()) > atol:
                    return False
            else:
                raise Unsupported('allclose on symbolic tensors')
    return True


def equal(a, b):
    if a.a.shape != b.a.shape:
        return False
    return allclose(a, b, 0, 0)


def any_(t):
    return t.any()


def all_(t):
    return t.all()


class finfo:
    def __init__(self, d=None):
        d = d or get_default_dtype()
        info = {'float32': (2.0 ** -23, 1.1754943508222875e-38, 3.4028234663852886e+38), 'float64': (2.0 ** -52, 2.2250738585072014e-308, 1.7976931348623157e+308),
                'float16': (2.0 ** -10, 6.103515625e-05, 65504.0), 'bfloat16': (2.0 ** -7, 1.1754943508222875e-38, 3.3895313892515355e+38)}[d.name]
        self.eps, self.tiny, self.max = info
        self.min = -self.max
        self.dtype = d.name


def count_nonzero(t):
    raise Unsupported('count_nonzero of a symbolic tensor')


def manual_seed(s):
    return None


def set_num_threads(n):
    return None


rand = _unsupported('torch.rand')
randn = _unsupported('torch.randn')
rand_like = _unsupported('torch.rand_like')
randn_like = _unsupported('torch.randn_like')


def var(t, dim=None, unbiased=True, keepdim=False, correction=None):
    return t.var(dim, unbiased, keepdim, correction)


def std(t, dim=None, unbiased=True, keepdim=False, correction=None):
    return t.std(dim, unbiased, keepdim, correction)


def unflatten(t, dim, sizes):
    return t.unflatten(dim, sizes)
