"""symtorch: a symbolic tensor library that is installed under the name `torch` while the
repository's modules are imported, so that the real source runs unchanged on symbolic values.

Real torch lives in the same process (for engine validation and replay); `symbolic()` / default
contexts swap the few sys.modules entries involved.
"""
import sys
import types
import importlib
import contextlib
from . import poly, tensor, functional, nn as _nn, autograd as _ag
from .poly import Poly, Unsupported

_SHIM = {}
_REAL = {}
_SYM_PW = {}
_REAL_PW = {}
REPO = '/repo'


def _build():
    if _SHIM:
        return
    t = types.ModuleType('torch')
    for k, v in vars(tensor).items():
        if not k.startswith('_'):
            setattr(t, k, v)
    t.float = tensor.float32; t.int = tensor.int32; t.bool = tensor.bool_
    t.abs = tensor.abs_; t.sum = tensor.sum_; t.max = tensor.max_; t.min = tensor.min_; t.any = tensor.any_; t.all = tensor.all_
    t.__version__ = '0.0-symbolic'
    t.Tensor = tensor.Tensor; t.dtype = tensor.dtype; t.device = tensor.device
    t.FloatTensor = tensor.Tensor; t.DoubleTensor = tensor.Tensor

    def _missing(name):
        if name.startswith('__'):
            raise AttributeError(name)
        raise Unsupported('torch.%s is outside the symbolic engine' % name)
    t.__getattr__ = _missing
    nnm = types.ModuleType('torch.nn')
    for k in ('Module', 'Sequential', 'ModuleList'):
        setattr(nnm, k, getattr(_nn, k))
    nnm.Parameter = tensor.Parameter

    def _nn_missing(name):
        if name.startswith('__'):
            raise AttributeError(name)
        raise Unsupported('torch.nn.%s is outside the symbolic engine' % name)
    nnm.__getattr__ = _nn_missing
    fm = types.ModuleType('torch.nn.functional')
    for k, v in vars(functional).items():
        if not k.startswith('_') and callable(v) and k not in ('Tensor', 'Poly', 'Fraction'):
            setattr(fm, k, v)

    def _f_missing(name):
        if name.startswith('__'):
            raise AttributeError(name)
        raise Unsupported('torch.nn.functional.%s is outside the symbolic engine' % name)
    fm.__getattr__ = _f_missing
    agm = types.ModuleType('torch.autograd')
    agm.Function = _ag.Function; agm.grad = _ag.grad
    agm.function = types.ModuleType('torch.autograd.function')
    agm.function.Function = _ag.Function; agm.function.InplaceFunction = _ag.InplaceFunction; agm.function.once_differentiable = lambda f: f
    agm.no_grad = tensor.no_grad; agm.enable_grad = tensor.enable_grad; agm.set_grad_enabled = tensor.set_grad_enabled

    def _gc(*a, **k):
        raise Unsupported('gradcheck')
    agm.gradcheck = _gc
    agm.Variable = lambda x, requires_grad=False: x
    cud = types.ModuleType('torch.cuda')
    cud.is_available = lambda: False
    cud.device_count = lambda: 0
    t.nn = nnm; nnm.functional = fm; t.autograd = agm; t.cuda = cud
    t.Generator = None
    _SHIM.update({'torch': t, 'torch.nn': nnm, 'torch.nn.functional': fm, 'torch.autograd': agm,
                  'torch.autograd.function': agm.function, 'torch.cuda': cud})


def _is_pw(k):
    return k == 'pytorch_wavelets' or k.startswith('pytorch_wavelets.')


def load(real=True, repo=None):
    """import the repository twice: on real torch (if real) and on the shim"""
    global REPO
    if repo:
        REPO = repo
    _build()
    if REPO not in sys.path:
        sys.path.insert(0, REPO)
    import warnings
    warnings.filterwarnings('ignore')
    if real and not _REAL_PW:
        import torch  # noqa
        torch.set_num_threads(1)
        import torch.nn, torch.nn.functional, torch.autograd, torch.autograd.function, torch.cuda  # noqa
        import pytorch_wavelets  # noqa
        import pytorch_wavelets.dwt.lowlevel, pytorch_wavelets.dtcwt.transform_funcs  # noqa
        import pytorch_wavelets.scatternet.lowlevel  # noqa
        for k in list(sys.modules):
            if _is_pw(k):
                _REAL_PW[k] = sys.modules[k]
        for k in _SHIM:
            if k in sys.modules:
                _REAL[k] = sys.modules[k]
    if not _SYM_PW:
        saved_pw = {k: sys.modules.pop(k) for k in list(sys.modules) if _is_pw(k)}
        saved_t = {k: sys.modules.get(k) for k in _SHIM}
        sys.modules.update(_SHIM)
        try:
            import pytorch_wavelets  # noqa
            import pytorch_wavelets.dwt.lowlevel, pytorch_wavelets.dtcwt.transform_funcs  # noqa
            import pytorch_wavelets.scatternet.lowlevel  # noqa
            for k in list(sys.modules):
                if _is_pw(k):
                    _SYM_PW[k] = sys.modules.pop(k)
        finally:
            for k, v in saved_t.items():
                if v is None:
                    sys.modules.pop(k, None)
                else:
                    sys.modules[k] = v
            sys.modules.update(saved_pw)


@contextlib.contextmanager
def symbolic():
    """sys.modules view for running the symbolic copy"""
    saved = {}
    for k in list(_SHIM) + list(_SYM_PW):
        saved[k] = sys.modules.get(k)
    sys.modules.update(_SHIM)
    sys.modules.update(_SYM_PW)
    try:
        yield
    finally:
        for k, v in saved.items():
            if v is None:
                sys.modules.pop(k, None)
            else:
                sys.modules[k] = v


def sym(name='pytorch_wavelets'):
    return _SYM_PW[name]


def real(name='pytorch_wavelets'):
    return _REAL_PW[name]


def shim():
    return _SHIM['torch']


def real_torch():
    return _REAL['torch']


class poison_uninit:
    """real torch: torch.empty / empty_like / Tensor.new_empty return NaN-filled floating tensors while active - the allocator
    stub of the replay: the contract of these calls is 'arbitrary contents', NaN is the arbitrary value that cannot be missed."""

    def __enter__(self):
        rt = real_torch()
        self._saved = (rt.empty, rt.empty_like, rt.Tensor.new_empty)
        e0, el0, ne0 = self._saved

        def _poison(t):
            if t.is_floating_point() and t.numel():
                with rt.no_grad():
                    t.fill_(float('nan'))
            return t

        def empty(*a, **k):
            return _poison(e0(*a, **k))

        def empty_like(*a, **k):
            return _poison(el0(*a, **k))

        def new_empty(self_, *a, **k):
            return _poison(ne0(self_, *a, **k))
        rt.empty, rt.empty_like, rt.Tensor.new_empty = empty, empty_like, new_empty
        return self

    def __exit__(self, *exc):
        rt = real_torch()
        rt.empty, rt.empty_like, rt.Tensor.new_empty = self._saved
        return False


def uninit_atoms(polys):
    """atoms of never-written memory mentioned by the given polynomials (directly or through defined atoms)"""
    from symtorch import poly as P, tensor as T
    if not T.STATE.uninit:
        return set()
    hit = set(); seen = set()
    todo = []
    for p in polys:
        if p is not None:
            todo.extend(p.atoms())
    while todo:
        a = todo.pop()
        if a in seen:
            continue
        seen.add(a)
        if a in T.STATE.uninit:
            hit.add(a)
        k = P.ATOMS.kind[a]
        if k in ('lin', 'opq', 'sqrt', 'inv', 'abs'):
            todo.extend(P.ATOMS.info[a].atoms())
        elif k == 'ite':
            c, u, v = P.ATOMS.info[a]
            todo.extend(u.atoms()); todo.extend(v.atoms())
    return hit
