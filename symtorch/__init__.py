"""symtorch: a symbolic tensor library that is installed under the name `torch` while the
repository's modules are imported, so that the real source runs unchanged on symbolic values.

Real torch lives in the same process (for engine validation and replay); `symbolic()` / default
contexts swap the few sys.modules entries involved.
"""
import sys
import types
import importlib
import contextlib
from . import poly, tensor, functional, nn as _nn, autograd as _ag
from .poly import Poly, Unsupported

_SHIM = {}
_REAL = {}
_SYM_PW = {}
_REAL_PW = {}
REPO = '/repo'


def _build():
    if _SHIM:
        return
    t = types.ModuleType('torch')
    for k, v in vars(tensor).items():
        if not k.startswith('_'):
            setattr(t, k, v)
    t.float = tensor.float32; t.int = tensor.int32; t.bool = tensor.bool_
    t.abs = tensor.abs_; t.sum = tensor.sum_; t.max = tensor.max_; t.min = tensor.min_; t.any = tensor.any_; t.all = tensor.all_
    t.__version__ = '0.0-symbolic'
    t.Tensor = tensor.Tensor; t.dtype = tensor.dtype; t.device = tensor.device
    t.FloatTensor = tensor.Tensor; t.DoubleTensor = tensor.Tensor

    def _missing(name):
        if name.startswith('__'):
            raise AttributeError(name)
        raise Unsupported('torch.%s is outside the symbolic engine' % name)
    t.__getattr__ = _missing
    nnm = types.ModuleType('torch.nn')
    for k in ('Module', 'Sequential', 'ModuleList'):
        setattr(nnm, k, getattr(_nn, k))
    nnm.Parameter = tensor.Parameter

    def _nn_missing(name):
        if name.startswith('__'):
            raise AttributeError(name)
        raise Unsupported('torch.nn.%s is outside the symbolic engine' % name)
    nnm.__getattr__ = _nn_missing
    fm = types.ModuleType('torch.nn.functional')
    for k, v in vars(functional).items():
        if not k.startswith('_') and callable(v) and k not in ('Tensor', 'Poly', 'Fraction'):
            setattr(fm, k, v)

    def _f_missing(name):
        if name.startswith('__'):
            raise AttributeError(name)
        raise Unsupported('torch.nn.functional.%s is outside the symbolic engine' % name)
    fm.__getattr__ = _f_missing
    agm = types.ModuleType('torch.autograd')
    agm.Function = _ag.Function; agm.grad = _ag.grad
    agm.function = types.ModuleType('torch.autograd.function')
    agm.function.Function = _ag.Function; agm.function.InplaceFunction = _ag.InplaceFunction; agm.function.once_differentiable = lambda f: f
    agm.no_grad = tensor.no_grad; agm.enable_grad = tensor.enable_grad; agm.set_grad_enabled = tensor.set_grad_enabled

    def _gc(*a, **k):
        raise Unsupported('gradcheck')
    agm.gradcheck = _gc
    agm.Variable = lambda x, requires_grad=False: x
    cud = types.ModuleType('torch.cuda')
    cud.is_available = lambda: False
    cud.device_count = lambda: 0
    t.nn = nnm; nnm.functional = fm; t.autograd = agm; t.cuda = cud
    t.Generator = None
    _SHIM.update({'torch': t, 'torch.nn': nnm, 'torch.nn.functional': fm, 'torch.autograd': agm,
                  'torch.autograd.function': agm.function, 'torch.cuda': cud})


def _is_pw(k):
    return k == 'pytorch_wavelets' or k.startswith('pytorch_wavelets.')


def load(real=True, repo=None):
    """import the repository twice: on real torch (if real) and on the shim"""
    global REPO
    if repo:
        REPO = repo
    _build()
    if REPO not in sys.path:
        sys.path.insert(0, REPO)
    import warnings
    warnings.filterwarnings('ignore')
    if real and not _REAL_PW:
        import torch  # noqa
        torch.set_num_threads(1)
        import torch.nn, torch.nn.functional, torch.autograd, torch.autograd.function, torch.cuda  # noqa
        import pytorch_wavelets  # noqa
        import pytorch_wavelets.dwt.lowlevel, pytorch_wavelets.dtcwt.transform_funcs  # noqa
        import pytorch_wavelets.scatternet.lowlevel  # noqa
        for k in list(sys.modules):
            if _is_pw(k):
                _REAL_PW[k] = sys.modules[k]
        for k in _SHIM:
            if k in sys.modules:
                _REAL[k] = sys.modules[k]
    if not _SYM_PW:
        saved_pw = {k: sys.modules.pop(k) for k in list(sys.modules) if _is_pw(k)}
        saved_t = {k: sys.modules.get(k) for k in _SHIM}
        sys.modules.update(_SHIM)
        try:
            import pytorch_wavelets  # noqa
            import pytorch_wavelets.dwt.lowlevel, pytorch_wavelets.dtcwt.transform_funcs  # noqa
            import pytorch_wavelets.scatternet.lowlevel  # noqa
            for k in list(sys.modules):
                if _is_pw(k):
                    _SYM_PW[k] = sys.modules.pop(k)
        finally:
            for k, v in saved_t.items():
                if v is None:
                    sys.modules.pop(k, None)
                else:
                    sys.modules[k] = v
            sys.modules.update(saved_pw)


@contextlib.contextmanager
def symbolic():
    """sys.modules view for running the symbolic copy"""
    saved = {}
    for k in list(_SHIM) + list(_SYM_PW):
        saved[k] = sys.modules.get(k)
    sys.modules.update(_SHIM)
    sys.modules.update(_SYM_PW)
    try:
        yield
    finally:
        for k, v in saved.items():
            if v is None:
                sys.modules.pop(k, None)
            else:
                sys.modules[k] = v


def sym(name='pytorch_wavelets'):
    return _SYM_PW[name]


def real(name='pytorch_wavelets'):
    return _REAL_PW[name]


def shim():
    return _SHIM['torch']


def real_torch():
    return _REAL['torch']
