"""torch.nn subset: Module, Parameter."""
from collections import OrderedDict
from .tensor import Tensor, Parameter, float32, float64, float16, bfloat16, dtype as _dtype, device as _device
from .poly import Unsupported
from . import functional  # noqa


class Module:
    def __init__(self, *a, **k):
        object.__setattr__(self, '_parameters', OrderedDict())
        object.__setattr__(self, '_buffers', OrderedDict())
        object.__setattr__(self, '_modules', OrderedDict())
        object.__setattr__(self, 'training', True)

    def register_buffer(self, name, tensor, persistent=True):
        if '_buffers' not in self.__dict__:
            raise AttributeError('cannot assign buffer before Module.__init__() call')
        if tensor is not None and not isinstance(tensor, Tensor):
            raise TypeError("cannot assign '%s' object to buffer '%s' (torch Tensor or None required)" % (type(tensor).__name__, name))
        if name in self.__dict__ or name in self._parameters or name in self._modules:
            raise KeyError("attribute '%s' already exists" % name)
        if tensor is not None and tensor._origin is None and tensor._base is None:
            tensor._origin = 'buffer:%s.%s' % (type(self).__name__, name)
        self._buffers[name] = tensor

    def register_parameter(self, name, param):
        self._parameters[name] = param

    def add_module(self, name, m):
        self._modules[name] = m

    def __setattr__(self, name, value):
        d = self.__dict__
        if isinstance(value, Parameter):
            if '_parameters' not in d:
                raise AttributeError('cannot assign parameters before Module.__init__() call')
            if value._origin is None:
                value._origin = 'buffer:%s.%s' % (type(self).__name__, name)
            for dd in (d, self._buffers, self._modules):
                dd.pop(name, None)
            self._parameters[name] = value
        elif isinstance(value, Module):
            if '_modules' not in d:
                raise AttributeError('cannot assign module before Module.__init__() call')
            for dd in (d, self._buffers, self._parameters):
                dd.pop(name, None)
            self._modules[name] = value
        elif '_buffers' in d and name in self._buffers:
            if value is not None and not isinstance(value, Tensor):
                raise TypeError("cannot assign '%s' as buffer '%s'" % (type(value).__name__, name))
            self._buffers[name] = value
        elif '_parameters' in d and name in self._parameters:
            if value is not None:
                raise TypeError("cannot assign '%s' as parameter '%s' (torch.nn.Parameter or None expected)" % (type(value).__name__, name))
            self._parameters[name] = value
        else:
            object.__setattr__(self, name, value)

    def __getattr__(self, name):
        d = self.__dict__
        for key in ('_parameters', '_buffers', '_modules'):
            if key in d and name in d[key]:
                return d[key][name]
        raise AttributeError("'%s' object has no attribute '%s'" % (type(self).__name__, name))

    def __delattr__(self, name):
        for key in ('_parameters', '_buffers', '_modules'):
            if name in self.__dict__[key]:
                del self.__dict__[key][name]
                return
        object.__delattr__(self, name)

    def __call__(self, *a, **k):
        return self.forward(*a, **k)

    def forward(self, *a, **k):
        raise NotImplementedError

    # iteration
    def named_parameters(self, prefix='', recurse=True):
        for n, p in self._parameters.items():
            if p is not None:
                yield prefix + n, p
        if recurse:
            for mn, m in self._modules.items():
                yield from m.named_parameters(prefix + mn + '.')

    def parameters(self, recurse=True):
        for _, p in self.named_parameters(recurse=recurse):
            yield p

    def named_buffers(self, prefix='', recurse=True):
        for n, b in self._buffers.items():
            if b is not None:
                yield prefix + n, b
        if recurse:
            for mn, m in self._modules.items():
                yield from m.named_buffers(prefix + mn + '.')

    def buffers(self, recurse=True):
        for _, b in self.named_buffers(recurse=recurse):
            yield b

    def named_children(self):
        yield from self._modules.items()

    def children(self):
        yield from self._modules.values()

    def modules(self):
        yield self
        for m in self._modules.values():
            yield from m.modules()

    def state_dict(self):
        d = OrderedDict()
        for n, p in self.named_parameters():
            d[n] = p
        for n, b in self.named_buffers():
            d[n] = b
        return d

    # conversion
    def _apply(self, fn):
        for m in self._modules.values():
            m._apply(fn)
        for n, p in list(self._parameters.items()):
            if p is not None:
                q = fn(p)
                if q is not p:
                    np_ = Parameter(q, p.requires_grad)
                    np_._origin = p._origin
                    self._parameters[n] = np_
        for n, b in list(self._buffers.items()):
            if b is not None:
                q = fn(b)
                if q is not b:
                    q._origin = b.origin
                self._buffers[n] = q
        return self

    def to(self, *args, **kw):
        d = kw.get('dtype')
        for x in args:
            if isinstance(x, _dtype):
                d = x
            elif isinstance(x, Tensor):
                d = x.dtype
            elif isinstance(x, (str, _device)):
                if _device(x).type != 'cpu':
                    raise Unsupported('non-CPU device')
        dev = kw.get('device')
        if dev is not None and _device(dev).type != 'cpu':
            raise Unsupported('non-CPU device')
        if d is None:
            return self
        if d.kind != 'f':
            raise TypeError('nn.Module.to only accepts floating point dtypes, but got desired dtype=%r' % d)
        return self._apply(lambda t: t.to(d) if t.dtype.kind == 'f' else t)

    def double(self): return self.to(float64)
    def float(self): return self.to(float32)
    def half(self): return self.to(float16)
    def bfloat16(self): return self.to(bfloat16)
    def cpu(self): return self
    def cuda(self, *a, **k): raise Unsupported('cuda')

    def train(self, mode=True):
        object.__setattr__(self, 'training', mode)
        for m in self._modules.values():
            m.train(mode)
        return self

    def eval(self):
        return self.train(False)

    def requires_grad_(self, flag=True):
        for p in self.parameters():
            p.requires_grad = flag
        return self

    def zero_grad(self, set_to_none=True):
        for p in self.parameters():
            p.grad = None

    def extra_repr(self):
        return ''

    def __repr__(self):
        return '%s(%s)' % (type(self).__name__, self.extra_repr())


class Sequential(Module):
    def __init__(self, *mods):
        super().__init__()
        for i, m in enumerate(mods):
            self.add_module(str(i), m)

    def forward(self, x):
        for m in self._modules.values():
            x = m(x)
        return x


class ModuleList(Module):
    def __init__(self, mods=()):
        super().__init__()
        for i, m in enumerate(mods):
            self.add_module(str(i), m)

    def __iter__(self):
        return iter(self._modules.values())

    def __len__(self):
        return len(self._modules)

    def __getitem__(self, i):
        return list(self._modules.values())[i]

    def append(self, m):
        self.add_module(str(len(self._modules)), m)
        return self
