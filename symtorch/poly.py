"""Exact symbolic scalars for the symbolic torch shim.

A `Poly` is a sparse multivariate polynomial {monomial -> Fraction} over *atoms* (ints).
A monomial is a sorted tuple of atom ids; () is the constant term.  All coefficients are exact
rationals (every float is converted exactly; no rounding ever happens here).  Non-polynomial
operations are *purified*: sqrt(p), 1/p, abs(p), ite(c,p,q) become fresh DEF atoms whose
defining constraint is kept in the atom table and emitted to the solver on demand.

Polys are immutable values: no method mutates `self.t` after construction.
"""
from fractions import Fraction
import math

F0 = Fraction(0)
F1 = Fraction(1)


class Unsupported(Exception):
    """The executed code left the fragment the symbolic engine can represent (=> inconclusive)."""


class UnsupportedAttr(Unsupported, AttributeError):
    """an attribute / method of torch.Tensor that the shim does not model (hasattr() still answers False)"""


class AtomTable:
    def __init__(self):
        self.reset()

    def reset(self):
        self.kind = []      # 'in' | 'cot' | 'par' | 'opq' | 'sqrt' | 'inv' | 'abs' | 'ite' | 'free'
        self.info = []      # kind-specific payload
        self.memo = {}      # canonical key -> atom (for DEF atoms)

    def new(self, kind, info=None):
        self.kind.append(kind)
        self.info.append(info)
        return len(self.kind) - 1

    def __len__(self):
        return len(self.kind)


ATOMS = AtomTable()


def reset():
    ATOMS.reset()
    PURIFY_LINEAR[0] = 0


def _frac(v):
    if isinstance(v, Fraction):
        return v
    if isinstance(v, bool):
        return Fraction(int(v))
    if isinstance(v, int):
        return Fraction(v)
    if isinstance(v, float):
        if v != v or v in (math.inf, -math.inf):
            raise Unsupported('non-finite constant %r' % (v,))
        return Fraction(v)
    try:
        import numpy as np
        if isinstance(v, np.generic):
            return _frac(v.item())
    except ImportError:  # pragma: no cover
        pass
    raise TypeError('cannot convert %r to an exact scalar' % (type(v),))


class Poly:
    __slots__ = ('t',)
    __array_priority__ = 10000
    __array_ufunc__ = None

    def __init__(self, t=None):
        self.t = t if t is not None else {}

    # ---- constructors -------------------------------------------------------------------
    @staticmethod
    def var(atom):
        return Poly({(atom,): F1})

    @staticmethod
    def const(c):
        c = _frac(c)
        return Poly({(): c}) if c else Poly()

    # ---- inspection ---------------------------------------------------------------------
    def is_zero(self):
        return not self.t

    def is_const(self):
        return not self.t or (len(self.t) == 1 and () in self.t)

    def const_value(self):
        return self.t.get((), F0)

    def degree(self):
        return max((len(k) for k in self.t), default=0)

    def is_linear(self):
        for k in self.t:
            if len(k) > 1:
                return False
        return True

    def atoms(self):
        s = set()
        for k in self.t:
            s.update(k)
        return s

    def single_atom(self):
        """atom id if this poly is exactly 1*atom, else None"""
        if len(self.t) == 1:
            (k, v), = self.t.items()
            if len(k) == 1 and v == 1:
                return k[0]
        return None

    def key(self):
        return frozenset(self.t.items())

    # ---- arithmetic ---------------------------------------------------------------------
    def __add__(a, b):
        if not isinstance(b, Poly):
            b = _frac(b)
            if not b:
                return a
            t = dict(a.t)
            w = t.get((), F0) + b
            if w:
                t[()] = w
            else:
                t.pop((), None)
            return Poly(t)
        if not b.t:
            return a
        if not a.t:
            return b
        if len(a.t) < len(b.t):
            a, b = b, a
        t = dict(a.t)
        for k, v in b.t.items():
            w = t.get(k)
            if w is None:
                t[k] = v
            else:
                w = w + v
                if w:
                    t[k] = w
                else:
                    del t[k]
        return Poly(t)

    __radd__ = __add__

    def __neg__(a):
        return Poly({k: -v for k, v in a.t.items()})

    def __pos__(a):
        return a

    def __sub__(a, b):
        if isinstance(b, Poly):
            return a + (-b)
        return a + (-_frac(b))

    def __rsub__(a, b):
        return (-a) + b

    def __mul__(a, b):
        if not isinstance(b, Poly):
            b = _frac(b)
            if not b:
                return Poly()
            if b == 1:
                return a
            return Poly({k: v * b for k, v in a.t.items()})
        if not a.t or not b.t:
            return Poly()
        if len(b.t) == 1 and () in b.t:
            return a * b.t[()]
        if len(a.t) == 1 and () in a.t:
            return b * a.t[()]
        if PURIFY_LINEAR[0]:
            # keep non-linear products small: a long linear operand is replaced by one defined atom (u := operand)
            if len(a.t) > PURIFY_LINEAR[0] and a.is_linear():
                a = lin_atom(a)
            if len(b.t) > PURIFY_LINEAR[0] and b.is_linear():
                b = lin_atom(b)
        t = {}
        for k1, v1 in a.t.items():
            for k2, v2 in b.t.items():
                if not k1:
                    k = k2
                elif not k2:
                    k = k1
                else:
                    k = tuple(sorted(k1 + k2))
                w = t.get(k)
                if w is None:
                    t[k] = v1 * v2
                else:
                    w = w + v1 * v2
                    if w:
                        t[k] = w
                    else:
                        del t[k]
        return Poly(t)

    __rmul__ = __mul__

    def __pow__(a, n):
        if isinstance(n, Poly):
            if not n.is_const():
                raise Unsupported('symbolic exponent')
            n = n.const_value()
        n = _frac(n)
        if n.denominator != 1:
            if n == Fraction(1, 2):
                return sqrt(a)
            raise Unsupported('non-integer power %s' % n)
        n = int(n)
        if n < 0:
            return inv(a ** (-n))
        r = Poly.const(1)
        for _ in range(n):
            r = r * a
        return r

    def __truediv__(a, b):
        if isinstance(b, Poly):
            if b.is_const():
                c = b.const_value()
                if not c:
                    raise Unsupported('division by the constant zero')
                return a * (F1 / c)
            return a * inv(b)
        b = _frac(b)
        if not b:
            raise Unsupported('division by the constant zero')
        return a * (F1 / b)

    def __rtruediv__(a, b):
        return inv(a) * _frac(b)

    # ---- comparisons produce conditions; truth value goes through the path manager -------
    def __bool__(self):
        if self.is_const():
            return bool(self.const_value())
        return bool(Cond('ne', self, Poly()))

    def __float__(self):
        if self.is_const():
            return float(self.const_value())
        raise Unsupported('float() of a symbolic value')

    def __int__(self):
        if self.is_const():
            return int(self.const_value())
        raise Unsupported('int() of a symbolic value')

    def __hash__(self):
        return hash(self.key())

    def same(self, other):
        return self.t == other.t

    def cmp(self, op, other):
        if not isinstance(other, Poly):
            other = Poly.const(other)
        d = self - other
        if d.is_const():
            c = d.const_value()
            return {'lt': c < 0, 'le': c <= 0, 'gt': c > 0, 'ge': c >= 0, 'eq': c == 0, 'ne': c != 0}[op]
        return Cond(op, self, other)

    def __repr__(self):
        if not self.t:
            return '0'
        parts = []
        for k, v in sorted(self.t.items(), key=lambda kv: (len(kv[0]), kv[0])):
            vs = '%s' % float(v) if v.denominator != 1 else '%d' % v.numerator
            parts.append(vs + ''.join('*a%d' % i for i in k))
        return ' + '.join(parts)

    # ---- evaluation ---------------------------------------------------------------------
    def evalf(self, env):
        """float evaluation; env: AtomEnv"""
        s = 0.0
        for k, v in self.t.items():
            p = float(v)
            for a in k:
                p *= env[a]
            s += p
        return s

    def evalq(self, env):
        """exact evaluation over atoms that have exact values in env (dict atom -> Fraction)"""
        s = F0
        for k, v in self.t.items():
            p = v
            for a in k:
                p *= env[a]
            s += p
        return s

    def diff(self, atom):
        """partial derivative w.r.t. an atom that occurs polynomially"""
        t = {}
        for k, v in self.t.items():
            c = k.count(atom)
            if c:
                kk = list(k)
                kk.remove(atom)
                kk = tuple(kk)
                w = t.get(kk, F0) + v * c
                if w:
                    t[kk] = w
                else:
                    t.pop(kk, None)
        return Poly(t)

    def subst(self, mapping):
        """substitute atoms by Polys (mapping: atom -> Poly); atoms not in mapping stay"""
        hit = False
        for k in self.t:
            for a in k:
                if a in mapping:
                    hit = True
                    break
            if hit:
                break
        if not hit:
            return self
        acc = {}
        for k, v in self.t.items():
            term = None
            rest = []
            for a in k:
                m = mapping.get(a)
                if m is None:
                    rest.append(a)
                else:
                    term = m if term is None else term * m
            if term is None:
                w = acc.get(k, F0) + v
                if w:
                    acc[k] = w
                else:
                    acc.pop(k, None)
                continue
            if rest:
                term = term * Poly({tuple(rest): F1})
            for k2, v2 in term.t.items():
                w = acc.get(k2, F0) + v2 * v
                if w:
                    acc[k2] = w
                else:
                    acc.pop(k2, None)
        return Poly(acc)


ZERO = Poly()
ONE = Poly.const(1)
PURIFY_LINEAR = [0]      # 0 = off; K > 0: linear operands with more than K terms are purified inside non-linear products


def lin_atom(p):
    """defined atom u := p for a linear form p (memoised by value, so equal forms share the atom)"""
    key = ('lin', p.key())
    a = ATOMS.memo.get(key)
    if a is None:
        a = ATOMS.new('lin', p)
        ATOMS.memo[key] = a
    return Poly.var(a)


def as_poly(v):
    return v if isinstance(v, Poly) else Poly.const(v)


def lincomb(pairs):
    """sum of w*p for (w, p) pairs, accumulated in one dict (w: Fraction, p: Poly)"""
    acc = {}
    for w, p in pairs:
        if not w:
            continue
        for k, v in p.t.items():
            x = acc.get(k)
            if x is None:
                acc[k] = v * w
            else:
                acc[k] = x + v * w
    return Poly({k: v for k, v in acc.items() if v})


# ---- purified non-polynomial operations -------------------------------------------------

def _isqrt_frac(c):
    if c < 0:
        return None
    n, d = c.numerator, c.denominator
    rn, rd = math.isqrt(n), math.isqrt(d)
    if rn * rn == n and rd * rd == d:
        return Fraction(rn, rd)
    return None


def sqrt(p):
    p = as_poly(p)
    if p.is_const():
        c = p.const_value()
        r = _isqrt_frac(c)
        if r is not None:
            return Poly.const(r)
        if c < 0:
            raise Unsupported('sqrt of a negative constant')
    key = ('sqrt', p.key())
    a = ATOMS.memo.get(key)
    if a is None:
        a = ATOMS.new('sqrt', p)
        ATOMS.memo[key] = a
    return Poly.var(a)


def inv(p):
    p = as_poly(p)
    if p.is_const():
        c = p.const_value()
        if not c:
            raise Unsupported('division by the constant zero')
        return Poly.const(F1 / c)
    # c * atom  ->  (1/c) * inv(atom)
    scale = F1
    if len(p.t) == 1:
        (k, v), = p.t.items()
        scale = F1 / v
        p = Poly({k: F1})
    key = ('inv', p.key())
    a = ATOMS.memo.get(key)
    if a is None:
        a = ATOMS.new('inv', p)
        ATOMS.memo[key] = a
    return Poly.var(a) * scale


def absval(p):
    p = as_poly(p)
    if p.is_const():
        return Poly.const(abs(p.const_value()))
    key = ('abs', p.key())
    a = ATOMS.memo.get(key)
    if a is None:
        a = ATOMS.new('abs', p)
        ATOMS.memo[key] = a
    return Poly.var(a)


def ite(c, p, q):
    """if-then-else on a condition (bool or Cond)"""
    if isinstance(c, bool):
        return as_poly(p) if c else as_poly(q)
    p = as_poly(p)
    q = as_poly(q)
    if p.same(q):
        return p
    key = ('ite', c.key(), p.key(), q.key())
    a = ATOMS.memo.get(key)
    if a is None:
        a = ATOMS.new('ite', (c, p, q))
        ATOMS.memo[key] = a
    return Poly.var(a)


def pmax(p, q):
    p = as_poly(p); q = as_poly(q)
    return ite(p.cmp('ge', q), p, q)


def pmin(p, q):
    p = as_poly(p); q = as_poly(q)
    return ite(p.cmp('le', q), p, q)


# ---- conditions and the path manager ----------------------------------------------------

class Cond:
    """atomic or compound condition over Polys"""
    __slots__ = ('op', 'a', 'b')

    def __init__(self, op, a, b=None):
        self.op = op   # lt le gt ge eq ne | and or not
        self.a = a
        self.b = b

    def key(self):
        if self.op in ('and', 'or'):
            return (self.op, self.a.key(), self.b.key())
        if self.op == 'not':
            return ('not', self.a.key())
        return (self.op, self.a.key(), self.b.key())

    def negate(self):
        neg = {'lt': 'ge', 'le': 'gt', 'gt': 'le', 'ge': 'lt', 'eq': 'ne', 'ne': 'eq'}
        if self.op in neg:
            return Cond(neg[self.op], self.a, self.b)
        if self.op == 'not':
            return self.a
        return Cond('not', self)

    def __and__(self, o):
        if isinstance(o, bool):
            return self if o else False
        return Cond('and', self, o)

    __rand__ = __and__

    def __or__(self, o):
        if isinstance(o, bool):
            return True if o else self
        return Cond('or', self, o)

    __ror__ = __or__

    def __invert__(self):
        return self.negate()

    def __bool__(self):
        return PATHS.decide(self)

    def evalf(self, env):
        if self.op == 'and':
            return cond_evalf(self.a, env) and cond_evalf(self.b, env)
        if self.op == 'or':
            return cond_evalf(self.a, env) or cond_evalf(self.b, env)
        if self.op == 'not':
            return not cond_evalf(self.a, env)
        x = self.a.evalf(env); y = self.b.evalf(env)
        return {'lt': x < y, 'le': x <= y, 'gt': x > y, 'ge': x >= y, 'eq': x == y, 'ne': x != y}[self.op]


def cond_evalf(c, env):
    if isinstance(c, bool):
        return c
    return c.evalf(env)


class PathManager:
    """CrossHair-style re-execution: a run follows a prefix of recorded decisions; at a new
    data-dependent branch the feasibility of both sides under the current path condition is
    decided by z3 (callback), the run takes one side and the other is queued."""

    def __init__(self):
        self.reset()

    def reset(self):
        self.prefix = []        # decisions to follow
        self.taken = []         # (cond, decision) along this run
        self.pending = []       # alternative prefixes to explore
        self.feasible = None    # callback(list of (cond, decision)) -> bool
        self.enabled = False

    def decide(self, cond):
        if not self.enabled:
            raise Unsupported('data-dependent branch on a symbolic value')
        i = len(self.taken)
        if i < len(self.prefix):
            d = self.prefix[i]
            self.taken.append((cond, d))
            return d
        can_t = self.feasible(self.taken + [(cond, True)])
        can_f = self.feasible(self.taken + [(cond, False)])
        if can_t and can_f:
            self.pending.append([d for _, d in self.taken] + [False])
            d = True
        elif can_t:
            d = True
        elif can_f:
            d = False
        else:
            raise Unsupported('infeasible path condition')
        self.taken.append((cond, d))
        return d


PATHS = PathManager()


# ---- float environment for validation / replay ------------------------------------------

class AtomEnv(dict):
    """atom -> float; DEF / opaque atoms are computed on demand from their definitions"""

    def __missing__(self, a):
        kind = ATOMS.kind[a]
        info = ATOMS.info[a]
        if kind == 'sqrt':
            v = info.evalf(self)
            v = math.sqrt(v) if v > 0 else 0.0
        elif kind == 'inv':
            d = info.evalf(self)
            v = 1.0 / d if d != 0 else math.inf
        elif kind == 'abs':
            v = abs(info.evalf(self))
        elif kind == 'ite':
            c, p, q = info
            v = p.evalf(self) if cond_evalf(c, self) else q.evalf(self)
        elif kind in ('opq', 'lin'):
            v = info.evalf(self)
        else:
            raise KeyError('atom a%d (%s) has no value' % (a, kind))
        self[a] = v
        return v
