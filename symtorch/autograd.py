"""Autograd model: a tape at torch.autograd.Function granularity.

Function.apply runs the repository's own `forward`; when an input requires grad, the outputs are
replaced by tensors of fresh opaque atoms (value recorded in the atom table) and a node is pushed.
Everything outside Functions builds polynomials over those atoms, so its VJP is read off by
differentiating the polynomial.  backprop() walks the tape in reverse and calls the repository's
own `backward` with exactly the `needs_input_grad` torch would give it.
"""
import numpy as np
from . import poly as P
from .poly import Poly, Unsupported, ZERO, ATOMS
from .tensor import Tensor, STATE, no_grad, _zeros_obj

_DEF_KINDS = ('sqrt', 'inv', 'abs', 'ite', 'lin')


class FunctionCtx:
    def __init__(self):
        self.saved_tensors = ()
        self.needs_input_grad = ()
        self._non_diff = []
        self.materialize_grads = True

    def save_for_backward(self, *ts):
        for t in ts:
            if t is not None and not isinstance(t, Tensor):
                raise TypeError('save_for_backward can only save variables, but argument is of type %s' % type(t).__name__)
        self.saved_tensors = tuple(ts)

    def mark_non_differentiable(self, *ts):
        self._non_diff.extend(ts)

    def mark_dirty(self, *ts):
        pass

    def set_materialize_grads(self, v):
        self.materialize_grads = bool(v)


class Node:
    __slots__ = ('cls', 'ctx', 'args', 'outs', 'raw')

    def __init__(self, cls, ctx, args, outs, raw):
        self.cls = cls; self.ctx = ctx; self.args = args; self.outs = outs; self.raw = raw


class Function:
    @staticmethod
    def forward(ctx, *a, **k):
        raise NotImplementedError('You must implement the forward function for custom autograd.Function.')

    @staticmethod
    def backward(ctx, *g):
        raise NotImplementedError('You must implement either the backward or vjp method for your custom autograd.Function')

    @classmethod
    def apply(cls, *args, **kwargs):
        if kwargs:
            raise TypeError('apply() takes no keyword arguments')
        ctx = FunctionCtx()
        needs = tuple(isinstance(a, Tensor) and a.requires_grad for a in args)
        ctx.needs_input_grad = needs
        track = STATE.grad_enabled and any(needs)
        STATE.funcs_entered.add(cls.__module__ + '.' + cls.__qualname__)
        STATE.in_function += 1
        try:
            with no_grad():
                outs = cls.forward(ctx, *args)
        finally:
            STATE.in_function -= 1
        if not track:
            return outs
        single = not isinstance(outs, tuple)
        ol = (outs,) if single else outs
        wrapped = []
        for o in ol:
            if isinstance(o, Tensor) and o.dtype.kind == 'f' and not any(o is nd for nd in ctx._non_diff):
                a = np.empty(o.a.shape, dtype=object)
                src = o.a
                for idx in np.ndindex(*src.shape):
                    a[idx] = Poly.var(ATOMS.new('opq', src[idx]))
                w = Tensor(a, o.dtype, requires_grad=True, grad_fn=cls.__name__ + 'Backward')
                wrapped.append(w)
            else:
                wrapped.append(o)
        STATE.tape.append(Node(cls, ctx, args, wrapped, ol))
        return wrapped[0] if single else tuple(wrapped)


class InplaceFunction(Function):
    pass


# ---- derivatives of element expressions w.r.t. tape atoms --------------------------------

def _def_partials(a, memo):
    r = memo.get(a)
    if r is not None:
        return r
    kind = ATOMS.kind[a]; info = ATOMS.info[a]
    out = {}
    if kind == 'sqrt':
        sub = partials(info, memo)
        f = P.inv(Poly.var(a)) * P.Fraction(1, 2)
        out = {b: d * f for b, d in sub.items()}
    elif kind == 'inv':
        sub = partials(info, memo)
        f = -(Poly.var(a) * Poly.var(a))
        out = {b: d * f for b, d in sub.items()}
    elif kind == 'abs':
        sub = partials(info, memo)
        sgn = P.ite(info.cmp('ge', ZERO), Poly.const(1), Poly.const(-1))
        out = {b: d * sgn for b, d in sub.items()}
    elif kind == 'lin':
        sub = partials(info, memo)
        out = {b: (d if isinstance(d, Poly) else Poly.const(d)) for b, d in sub.items()}
    elif kind == 'ite':
        c, p, q = info
        sp = partials(p, memo); sq = partials(q, memo)
        for b in set(sp) | set(sq):
            out[b] = P.ite(c, sp.get(b, ZERO), sq.get(b, ZERO))
    memo[a] = out
    return out


def partials(e, memo):
    """{tape atom: d e / d atom} with DEF atoms expanded by the chain rule"""
    out = {}
    if e.is_linear():
        simple = True
        for k in e.t:
            if k and ATOMS.kind[k[0]] in _DEF_KINDS:
                simple = False
                break
        if simple:
            for k, v in e.t.items():
                if k:
                    out[k[0]] = v     # Fraction
            return out
    for a in e.atoms():
        d = e.diff(a)
        if ATOMS.kind[a] in _DEF_KINDS:
            for b, db in _def_partials(a, memo).items():
                out[b] = out.get(b, ZERO) + d * db
        else:
            out[a] = out.get(a, ZERO) + d
    return out


def _acc_add(acc, atom, g, c):
    """acc[atom] += g * c   (g: Poly cotangent, c: Fraction | Poly)"""
    if isinstance(c, Poly):
        if c.is_zero():
            return
        if c.is_const():
            c = c.const_value()
    d = acc.get(atom)
    if d is None:
        d = acc[atom] = {}
    if isinstance(c, Poly):
        q = g * c
        for k, v in q.t.items():
            x = d.get(k)
            d[k] = v if x is None else x + v
    else:
        if not c:
            return
        for k, v in g.t.items():
            x = d.get(k)
            d[k] = v * c if x is None else x + v * c


def _seed(acc, t_arr, g_arr, memo):
    for e, g in zip(t_arr.reshape(-1), g_arr.reshape(-1)):
        if not g.t or not e.t:
            continue
        for a, c in partials(e, memo).items():
            _acc_add(acc, a, g, c)


def backprop(outputs, cotangents):
    """outputs: list of Tensors computed with grad tracking; cotangents: matching list of Tensors (or None).
    Returns {atom: Poly} for every tape atom that received gradient and was not consumed by a node
    (i.e. the leaves)."""
    acc = {}
    memo = {}
    for o, c in zip(outputs, cotangents):
        if o is None or c is None:
            continue
        if not isinstance(o, Tensor) or o.a.dtype != object:
            continue
        if o.a.shape != c.a.shape:
            raise RuntimeError('Mismatch in shape: grad_output has a shape of %s and output has a shape of %s' % (list(c.a.shape), list(o.a.shape)))
        if o.requires_grad:
            _seed(acc, o.a, c.a, memo)
    for node in reversed(STATE.tape):
        grads = []
        hit = False
        for w in node.outs:
            if isinstance(w, Tensor) and w.grad_fn is not None and w.a.dtype == object and w.requires_grad:
                g = np.empty(w.a.shape, dtype=object)
                gf = g.reshape(-1) if g.ndim else None
                src = w.a.reshape(-1)
                vals = []
                anyhit = False
                for p in src:
                    d = acc.pop(next(iter(p.t))[0], None)
                    if d is None:
                        vals.append(ZERO)
                    else:
                        anyhit = True
                        vals.append(Poly({k: v for k, v in d.items() if v}))
                if g.ndim:
                    gf[:] = vals
                else:
                    g[()] = vals[0]
                if anyhit:
                    hit = True
                    grads.append(Tensor(g, w.dtype))
                else:
                    grads.append(Tensor(g, w.dtype) if node.ctx.materialize_grads else None)
            else:
                grads.append(None)
        if not hit:
            continue
        STATE.funcs_entered.add(node.cls.__module__ + '.' + node.cls.__qualname__ + '.backward')
        STATE.in_function += 1
        try:
            with no_grad():
                res = node.cls.backward(node.ctx, *grads)
        finally:
            STATE.in_function -= 1
        if not isinstance(res, tuple):
            res = (res,)
        nin = len(node.args)
        if len(res) > nin:
            for extra in res[nin:]:
                if extra is not None:
                    raise RuntimeError('function %sBackward returned an incorrect number of gradients (expected %d, got %d)'
                                       % (node.cls.__name__, nin, len(res)))
            res = res[:nin]
        elif len(res) < nin:
            raise RuntimeError('function %sBackward returned an incorrect number of gradients (expected %d, got %d)'
                               % (node.cls.__name__, nin, len(res)))
        for i, (arg, gr) in enumerate(zip(node.args, res)):
            if gr is None:
                continue
            if not isinstance(arg, Tensor):
                raise RuntimeError('function %sBackward returned a gradient different than None at position %d, but the '
                                   'corresponding forward input was not a Variable' % (node.cls.__name__, i + 1))
            if not arg.requires_grad:
                continue
            if not isinstance(gr, Tensor):
                raise TypeError('expected Variable or None (got %s)' % type(gr).__name__)
            if gr.a.shape != arg.a.shape:
                try:
                    ok = np.broadcast_shapes(gr.a.shape, arg.a.shape) == gr.a.shape
                except ValueError:
                    ok = False
                if not ok:
                    raise RuntimeError('Function %sBackward returned an invalid gradient at index %d - got %s but expected shape compatible with %s'
                                       % (node.cls.__name__, i, list(gr.a.shape), list(arg.a.shape)))
                from .tensor import sum_
                extra = gr.a.ndim - arg.a.ndim
                g2 = gr
                if extra:
                    g2 = sum_(g2, tuple(range(extra)))
                for d_, (gs, as_) in enumerate(zip(g2.a.shape, arg.a.shape)):
                    if gs != as_:
                        g2 = sum_(g2, d_, True)
                gr = g2
            ga = gr.a
            if ga.dtype != object:
                from .tensor import _obj_from_numeric
                ga = _obj_from_numeric(ga)
            _seed(acc, arg.a, ga, memo)
    return {a: Poly({k: v for k, v in d.items() if v}) for a, d in acc.items()}


def grad_of(leaf, acc):
    """gradient array for a leaf tensor whose elements are single atoms"""
    out = np.empty(leaf.a.shape, dtype=object)
    for idx in np.ndindex(*leaf.a.shape):
        a = leaf.a[idx].single_atom()
        if a is None:
            raise Unsupported('leaf tensor element is not a single atom')
        out[idx] = acc.get(a, None)
    return out


def grad(outputs, inputs, grad_outputs=None, retain_graph=None, create_graph=False, allow_unused=False, **kw):
    single = isinstance(outputs, Tensor)
    outs = [outputs] if single else list(outputs)
    ins = [inputs] if isinstance(inputs, Tensor) else list(inputs)
    if grad_outputs is None:
        gos = []
        for o in outs:
            if o.a.size != 1:
                raise RuntimeError('grad can be implicitly created only for scalar outputs')
            g = np.empty(o.a.shape, dtype=object); g[...] = P.ONE
            gos.append(Tensor(g, o.dtype))
    else:
        gos = [grad_outputs] if isinstance(grad_outputs, Tensor) else list(grad_outputs)
    if not any(o.requires_grad for o in outs):
        raise RuntimeError('element 0 of tensors does not require grad and does not have a grad_fn')
    acc = backprop(outs, gos)
    res = []
    for t in ins:
        ga = grad_of(t, acc)
        if all(v is None for v in ga.reshape(-1)):
            if not allow_unused:
                raise RuntimeError('One of the differentiated Tensors appears to not have been used in the graph. '
                                   'Set allow_unused=True if this is the desired behavior.')
            res.append(None)
        else:
            for idx in np.ndindex(*ga.shape):
                if ga[idx] is None:
                    ga[idx] = ZERO
            res.append(Tensor(ga, t.dtype))
    return tuple(res)


def tensor_backward(t, gradient=None):
    raise Unsupported('Tensor.backward() (use torch.autograd.grad in harnesses)')


gradcheck = None


# ---- resolving opaque atoms back to input atoms ------------------------------------------

def _resolve_atom(a, memo):
    if a in memo:
        return memo[a]
    kind = ATOMS.kind[a]; info = ATOMS.info[a]
    r = None
    if kind == 'opq':
        r = resolve_poly(info, memo)
    elif kind in ('sqrt', 'inv', 'abs', 'lin'):
        q = resolve_poly(info, memo)
        if q is not info:
            r = {'sqrt': P.sqrt, 'inv': P.inv, 'abs': P.absval, 'lin': (lambda z: P.lin_atom(z) if (z.is_linear() and not z.is_const()) else z)}[kind](q)
    elif kind == 'ite':
        c, p, q = info
        p2 = resolve_poly(p, memo); q2 = resolve_poly(q, memo); c2 = resolve_cond(c, memo)
        if p2 is not p or q2 is not q or c2 is not c:
            r = P.ite(c2, p2, q2)
    memo[a] = r
    return r


def resolve_cond(c, memo):
    if isinstance(c, bool):
        return c
    if c.op in ('and', 'or'):
        a = resolve_cond(c.a, memo); b = resolve_cond(c.b, memo)
        return c if (a is c.a and b is c.b) else P.Cond(c.op, a, b)
    if c.op == 'not':
        a = resolve_cond(c.a, memo)
        return c if a is c.a else P.Cond('not', a)
    a = resolve_poly(c.a, memo); b = resolve_poly(c.b, memo)
    if a is c.a and b is c.b:
        return c
    r = a.cmp(c.op, b)
    return r


def resolve_poly(p, memo):
    mapping = None
    for a in p.atoms():
        r = _resolve_atom(a, memo)
        if r is not None:
            if mapping is None:
                mapping = {}
            mapping[a] = r
    return p.subst(mapping) if mapping else p


def resolve(t, memo=None):
    """object array (or Tensor) with every opaque atom replaced by its value"""
    if memo is None:
        memo = {}
    a = t.a if isinstance(t, Tensor) else t
    out = np.empty(a.shape, dtype=object)
    for idx in np.ndindex(*a.shape):
        out[idx] = resolve_poly(a[idx], memo)
    return out
