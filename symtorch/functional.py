"""torch.nn.functional subset on symbolic tensors (exact arithmetic)."""
import numpy as np
from fractions import Fraction
from . import poly as P
from .poly import Poly, Unsupported, ZERO
from .tensor import Tensor, _zeros_obj, _obj_from_numeric, relu, STATE  # noqa


def _pair(v, n=2):
    if isinstance(v, (int, np.integer)):
        return (int(v),) * n
    v = tuple(int(x) for x in v)
    if len(v) == 1:
        return v * n
    if len(v) != n:
        raise RuntimeError('expected a sequence of %d ints, got %d' % (n, len(v)))
    return v


_TN = {'float32': 'float', 'float64': 'double', 'float16': 'c10::Half', 'bfloat16': 'c10::BFloat16',
       'int64': 'long int', 'int32': 'int', 'bool': 'bool', 'uint8': 'unsigned char'}


def _check_conv_types(x, w, bias):
    if not isinstance(x, Tensor) or not isinstance(w, Tensor):
        raise TypeError('conv: argument must be Tensor')
    if x.dtype is not w.dtype:
        raise RuntimeError('Input type (%s) and weight type (%s) should be the same' % (_TN[x.dtype.name], _TN[w.dtype.name]))
    if x.dtype.kind != 'f':
        raise RuntimeError('"conv" not implemented for \'%s\'' % x.dtype.name)
    if bias is not None and bias.dtype is not x.dtype:
        raise RuntimeError('Input type and bias type should be the same')


def _weights(W):
    """object weight array -> nested list of (Fraction | Poly | None)"""
    out = np.empty(W.shape, dtype=object)
    for idx in np.ndindex(*W.shape):
        p = W[idx]
        if p.is_const():
            c = p.const_value()
            out[idx] = c if c else None
        else:
            out[idx] = p
    return out


def _acc_add(acc, p, w):
    """acc += w * p   (acc: dict, p: Poly, w: Fraction or Poly)"""
    if isinstance(w, Fraction):
        for k, v in p.t.items():
            x = acc.get(k)
            acc[k] = v * w if x is None else x + v * w
    else:
        q = p * w
        for k, v in q.t.items():
            x = acc.get(k)
            acc[k] = v if x is None else x + v


def _fin(acc):
    return Poly({k: v for k, v in acc.items() if v}) if acc else ZERO


def _channels_last(a):
    """torch keeps the channels_last memory format of a conv input for its output (so that later .view/.flatten behave
    differently from the contiguous case): detect an NHWC-strided (N,C,H,W) array"""
    if a.ndim != 4 or a.shape[1] <= 1 or a.shape[2] * a.shape[3] <= 1 or a.flags['C_CONTIGUOUS']:
        return False
    return bool(np.transpose(a, (0, 2, 3, 1)).flags['C_CONTIGUOUS'])


def _like_input_format(out, x_arr):
    if _channels_last(x_arr) and out.shape[1] > 1:
        return np.ascontiguousarray(np.transpose(out, (0, 2, 3, 1))).transpose(0, 3, 1, 2)
    return out


def conv2d(input, weight, bias=None, stride=1, padding=0, dilation=1, groups=1):
    x, w = input, weight
    _check_conv_types(x, w, bias)
    if w.a.ndim != 4:
        raise RuntimeError('weight should have 4 dimensions for conv2d, got %d' % w.a.ndim)
    unb = False
    if x.a.ndim == 3:
        unb = True
        X = x.a[None]
    elif x.a.ndim == 4:
        X = x.a
    else:
        raise RuntimeError('Expected 3D (unbatched) or 4D (batched) input to conv2d, but got input of size: %s' % (list(x.a.shape),))
    sh, sw = _pair(stride); dh, dw = _pair(dilation)
    if isinstance(padding, str):
        if padding == 'valid':
            ph = pw = 0
        else:
            raise Unsupported("padding='%s'" % padding)
    else:
        ph, pw = _pair(padding)
    if ph < 0 or pw < 0:
        raise RuntimeError('negative padding is not supported')
    if sh <= 0 or sw <= 0:
        raise RuntimeError('non-positive stride is not supported')
    N, C, H, Wd = X.shape
    O, Cg, kh, kw = w.a.shape
    if groups <= 0 or C % groups or O % groups:
        raise RuntimeError('Given groups=%d, expected input channels and output channels to be divisible by groups' % groups)
    if C != Cg * groups:
        raise RuntimeError('Given groups=%d, weight of size %s, expected input%s to have %d channels, but got %d channels instead'
                           % (groups, list(w.a.shape), list(X.shape), Cg * groups, C))
    Hp, Wp = H + 2 * ph, Wd + 2 * pw
    ekh, ekw = dh * (kh - 1) + 1, dw * (kw - 1) + 1
    if ekh > Hp or ekw > Wp:
        raise RuntimeError("Calculated padded input size per channel: (%d x %d). Kernel size: (%d x %d). "
                           "Kernel size can't be greater than actual input size" % (Hp, Wp, ekh, ekw))
    oh = (Hp - ekh) // sh + 1
    ow = (Wp - ekw) // sw + 1
    Wt = _weights(w.a)
    out = np.empty((N, O, oh, ow), dtype=object)
    opg = O // groups
    B = None if bias is None else bias.a
    for o in range(O):
        g = o // opg
        taps = []
        for ci in range(Cg):
            for i in range(kh):
                for j in range(kw):
                    wv = Wt[o, ci, i, j]
                    if wv is not None:
                        taps.append((g * Cg + ci, i * dh - ph, j * dw - pw, wv))
        for n in range(N):
            Xn = X[n]
            for oy in range(oh):
                y0 = oy * sh
                for ox in range(ow):
                    x0 = ox * sw
                    acc = {}
                    for c, di, dj, wv in taps:
                        yy = y0 + di; xx = x0 + dj
                        if 0 <= yy < H and 0 <= xx < Wd:
                            p = Xn[c, yy, xx]
                            if p.t:
                                _acc_add(acc, p, wv)
                    if B is not None:
                        _acc_add(acc, B[o], P.F1)
                    out[n, o, oy, ox] = _fin(acc)
    if unb:
        out = out[0]
    else:
        out = _like_input_format(out, X)
    return x._fresh(out, parents=(w,) + ((bias,) if bias is not None else ()))


def conv_transpose2d(input, weight, bias=None, stride=1, padding=0, output_padding=0, groups=1, dilation=1):
    x, w = input, weight
    _check_conv_types(x, w, bias)
    if w.a.ndim != 4:
        raise RuntimeError('weight should have 4 dimensions for conv_transpose2d')
    if x.a.ndim != 4:
        raise RuntimeError('Expected 4D input to conv_transpose2d, but got input of size: %s' % (list(x.a.shape),))
    X = x.a
    sh, sw = _pair(stride); ph, pw = _pair(padding); dh, dw = _pair(dilation); oph, opw = _pair(output_padding)
    N, C, H, Wd = X.shape
    Ci, Og, kh, kw = w.a.shape
    if C != Ci:
        raise RuntimeError('Given transposed=1, weight of size %s, expected input%s to have %d channels, but got %d channels instead'
                           % (list(w.a.shape), list(X.shape), Ci, C))
    if groups <= 0 or C % groups:
        raise RuntimeError('input channels not divisible by groups')
    if oph >= max(sh, dh) or opw >= max(sw, dw):
        raise RuntimeError('output padding must be smaller than either stride or dilation')
    O = Og * groups
    cpg = C // groups
    OH = (H - 1) * sh - 2 * ph + dh * (kh - 1) + oph + 1
    OW = (Wd - 1) * sw - 2 * pw + dw * (kw - 1) + opw + 1
    if OH <= 0 or OW <= 0:
        raise RuntimeError('Given input size per channel: (%d x %d). Calculated output size per channel: (%d x %d). Output size is too small'
                           % (H, Wd, OH, OW))
    Wt = _weights(w.a)
    accs = {}
    for c in range(C):
        g = c // cpg
        for oo in range(Og):
            o = g * Og + oo
            taps = [(i * dh - ph, j * dw - pw, Wt[c, oo, i, j]) for i in range(kh) for j in range(kw) if Wt[c, oo, i, j] is not None]
            if not taps:
                continue
            for n in range(N):
                Xc = X[n, c]
                for iy in range(H):
                    for ix in range(Wd):
                        p = Xc[iy, ix]
                        if not p.t:
                            continue
                        for di, dj, wv in taps:
                            yy = iy * sh + di; xx = ix * sw + dj
                            if 0 <= yy < OH and 0 <= xx < OW:
                                key = (n, o, yy, xx)
                                acc = accs.get(key)
                                if acc is None:
                                    acc = accs[key] = {}
                                _acc_add(acc, p, wv)
    out = _zeros_obj((N, O, OH, OW))
    for key, acc in accs.items():
        out[key] = _fin(acc)
    if bias is not None:
        for o in range(O):
            out[:, o] = out[:, o] + bias.a[o]
    out = _like_input_format(out, X)
    return x._fresh(out, parents=(w,) + ((bias,) if bias is not None else ()))


def conv1d(input, weight, bias=None, stride=1, padding=0, dilation=1, groups=1):
    if input.a.ndim != 3 or weight.a.ndim != 3:
        raise RuntimeError('Expected 3D input and weight to conv1d')
    s = _pair(stride, 1)[0]; p = _pair(padding, 1)[0] if not isinstance(padding, str) else padding; d = _pair(dilation, 1)[0]
    r = conv2d(input[:, :, None, :], weight[:, :, None, :], bias, (1, s), (0, p) if not isinstance(p, str) else p, (1, d), groups)
    return r[:, :, 0]


def conv_transpose1d(input, weight, bias=None, stride=1, padding=0, output_padding=0, groups=1, dilation=1):
    if input.a.ndim != 3 or weight.a.ndim != 3:
        raise RuntimeError('Expected 3D input and weight to conv_transpose1d')
    s = _pair(stride, 1)[0]; p = _pair(padding, 1)[0]; d = _pair(dilation, 1)[0]; op = _pair(output_padding, 1)[0]
    r = conv_transpose2d(input[:, :, None, :], weight[:, :, None, :], bias, (1, s), (0, p), (0, op), groups, (1, d))
    return r[:, :, 0]


def pad(input, pad, mode='constant', value=None):
    x = input
    pad = tuple(int(p) for p in pad)
    if len(pad) % 2:
        raise RuntimeError('Padding length must be divisible by 2')
    k = len(pad) // 2
    nd = x.a.ndim
    if k > nd:
        raise RuntimeError('Padding length should be less than or equal to two times the input dimension but got padding length %d and input of dimension %d' % (len(pad), nd))
    widths = [(0, 0)] * nd
    for i in range(k):
        widths[nd - 1 - i] = (pad[2 * i], pad[2 * i + 1])
    a = x.a
    if mode == 'constant':
        # negative pads crop
        sl = []
        for (lo, hi), n in zip(widths, a.shape):
            s0 = -lo if lo < 0 else 0
            s1 = n + hi if hi < 0 else n
            if s1 < s0:
                raise RuntimeError('The input size %d, plus negative padding %d and %d, resulted in a negative output size' % (n, lo, hi))
            sl.append(slice(s0, s1))
        a = a[tuple(sl)]
        pw = [(max(lo, 0), max(hi, 0)) for lo, hi in widths]
        fill = Poly.const(value if value is not None else 0)
        osh = tuple(n + lo + hi for n, (lo, hi) in zip(a.shape, pw))
        out = np.empty(osh, dtype=object) if a.dtype == object else np.full(osh, value or 0, dtype=a.dtype)
        if a.dtype == object:
            out[...] = fill
        out[tuple(slice(lo, lo + n) for n, (lo, hi) in zip(a.shape, pw))] = a
        return x._fresh(out)
    if mode in ('reflect', 'replicate', 'circular'):
        if value not in (None, 0, 0.0):
            raise ValueError('Padding mode "%s" doesn\'t take in value argument' % mode)
        if not (nd in (2, 3) and k == 1 or nd in (3, 4) and k == 2 or nd in (4, 5) and k == 3):
            raise NotImplementedError('Only 2D, 3D, 4D, 5D padding with non-constant padding are supported for now')
        for (lo, hi), n in zip(widths, a.shape):
            if lo < 0 or hi < 0:
                raise Unsupported('negative %s padding' % mode)
            if mode == 'reflect' and (lo >= n or hi >= n) and (lo or hi):
                raise RuntimeError('Argument #4: Padding size should be less than the corresponding input dimension, '
                                   'but got: padding (%d, %d) at dimension %d of input %s' % (lo, hi, nd - 1, list(a.shape)))
            if mode == 'circular' and (lo > n or hi > n):
                raise RuntimeError('Padding value causes wrapping around more than once.')
            if mode == 'replicate' and n == 0 and (lo or hi):
                raise RuntimeError('Expected non-empty input for replicate padding')
        npmode = {'reflect': 'reflect', 'replicate': 'edge', 'circular': 'wrap'}[mode]
        out = a
        for ax, (lo, hi) in enumerate(widths):
            if lo or hi:
                n = out.shape[ax]
                if npmode == 'reflect':
                    idx = list(range(lo, 0, -1)) + list(range(n)) + list(range(n - 2, n - 2 - hi, -1))
                elif npmode == 'edge':
                    idx = [0] * lo + list(range(n)) + [n - 1] * hi
                else:
                    idx = [(i % n) for i in range(-lo, n + hi)]
                out = np.take(out, idx, axis=ax)
        return x._fresh(np.ascontiguousarray(out))
    raise NotImplementedError('Unrecognised padding mode %s' % mode)


def avg_pool2d(input, kernel_size, stride=None, padding=0, ceil_mode=False, count_include_pad=True, divisor_override=None):
    x = input
    if x.a.ndim not in (3, 4):
        raise RuntimeError('non-empty 3D or 4D (batch mode) tensor expected for input')
    if ceil_mode or divisor_override is not None:
        raise Unsupported('avg_pool2d options')
    kh, kw = _pair(kernel_size)
    sh, sw = _pair(stride if stride is not None else kernel_size)
    ph, pw = _pair(padding)
    if ph > kh // 2 or pw > kw // 2:
        raise RuntimeError('pad should be at most half of effective kernel size')
    a = x.a
    if ph or pw:
        a = pad(x, (pw, pw, ph, ph)).a
    H, W = a.shape[-2:]
    oh = (H - kh) // sh + 1
    ow = (W - kw) // sw + 1
    if oh <= 0 or ow <= 0:
        raise RuntimeError('Given input size: (%dx%d). Calculated output size: (%dx%d). Output size is too small' % (H, W, oh, ow))
    acc = None
    for i in range(kh):
        for j in range(kw):
            s = a[..., i:i + sh * (oh - 1) + 1:sh, j:j + sw * (ow - 1) + 1:sw]
            acc = s if acc is None else acc + s
    out = acc * Fraction(1, kh * kw)
    return x._fresh(np.ascontiguousarray(out))


def interpolate(input, size=None, scale_factor=None, mode='nearest', align_corners=None, recompute_scale_factor=None):
    x = input
    if mode != 'nearest':
        raise Unsupported('interpolate mode %s' % mode)
    nsp = x.a.ndim - 2
    if nsp < 1:
        raise RuntimeError('interpolate expects at least 3D input')
    a = x.a
    if size is not None:
        size = _pair(size, nsp)
        out = a
        for d in range(nsp):
            n = a.shape[2 + d]
            idx = [min(int(np.floor(i * n / size[d])), n - 1) for i in range(size[d])]
            out = np.take(out, idx, axis=2 + d)
        return x._fresh(np.ascontiguousarray(out))
    if scale_factor is None:
        raise ValueError('either size or scale_factor should be defined')
    sf = scale_factor if isinstance(scale_factor, (tuple, list)) else (scale_factor,) * nsp
    out = a
    for d in range(nsp):
        n = a.shape[2 + d]
        on = int(np.floor(n * sf[d]))
        idx = [min(int(np.floor(i / sf[d])), n - 1) for i in range(on)]
        out = np.take(out, idx, axis=2 + d)
    return x._fresh(np.ascontiguousarray(out))


upsample = interpolate


def linear(input, weight, bias=None):
    r = input.matmul(weight.t())
    return r if bias is None else r + bias


def pixel_shuffle(input, upscale_factor):
    r = int(upscale_factor)
    a = input.a
    if a.ndim < 3:
        raise RuntimeError('pixel_shuffle expects input to have at least 3 dimensions, but got input with %d dimension(s)' % a.ndim)
    *lead, c, h, w = a.shape
    if c % (r * r):
        raise RuntimeError('pixel_shuffle expects its input\'s \'channel\' dimension to be divisible by the square of upscale_factor, '
                           'but input.size(-3)=%d is not divisible by %d' % (c, r * r))
    oc = c // (r * r)
    x = a.reshape(*lead, oc, r, r, h, w)
    n = len(lead)
    x = np.transpose(x, list(range(n)) + [n, n + 3, n + 1, n + 4, n + 2])
    return input._fresh(np.ascontiguousarray(x).reshape(*lead, oc, h * r, w * r))


def pixel_unshuffle(input, downscale_factor):
    r = int(downscale_factor)
    a = input.a
    if a.ndim < 3:
        raise RuntimeError('pixel_unshuffle expects input to have at least 3 dimensions, but got input with %d dimension(s)' % a.ndim)
    *lead, c, h, w = a.shape
    if h % r or w % r:
        raise RuntimeError('pixel_unshuffle expects height to be divisible by downscale_factor, but input.size(-2)=%d is not divisible by %d' % (h, r)
                           if h % r else 'pixel_unshuffle expects width to be divisible by downscale_factor, but input.size(-1)=%d is not divisible by %d' % (w, r))
    x = a.reshape(*lead, c, h // r, r, w // r, r)
    n = len(lead)
    x = np.transpose(x, list(range(n)) + [n, n + 2, n + 4, n + 1, n + 3])
    return input._fresh(np.ascontiguousarray(x).reshape(*lead, c * r * r, h // r, w // r))
