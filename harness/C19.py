"""C19 — the non-separable one-level 2-D filter bank equals the separable one (analysis and synthesis)."""
import time
import numpy as np
import pywt
from fractions import Fraction
import symtorch
from symtorch import poly as P, tensor as T
from symtorch.poly import Poly
from vlib import core, smt
from harness import dwtlib as D

MODES = ['zero', 'symmetric', 'reflect', 'periodization']
WAVES_Q = ['haar', 'db2', 'db3', 'bior1.3', 'bior2.4', 'bior3.1', 'sym4']
SHAPES_Q = [(2, 2), (2, 3), (3, 2), (4, 4), (5, 7), (6, 4), (7, 7), (8, 5), (9, 10), (10, 10)]

META = {
    'functions': ['pytorch_wavelets.dwt.lowlevel.afb2d_nonsep', 'pytorch_wavelets.dwt.lowlevel.afb2d',
                  'pytorch_wavelets.dwt.lowlevel.sfb2d_nonsep', 'pytorch_wavelets.dwt.lowlevel.sfb2d',
                  'pytorch_wavelets.dwt.lowlevel.prep_filt_afb2d_nonsep', 'pytorch_wavelets.dwt.lowlevel.prep_filt_sfb2d_nonsep',
                  'pytorch_wavelets.dwt.lowlevel.prep_filt_afb2d', 'pytorch_wavelets.dwt.lowlevel.prep_filt_sfb2d',
                  'pytorch_wavelets.dwt.lowlevel.afb1d', 'pytorch_wavelets.dwt.lowlevel.sfb1d', 'pytorch_wavelets.dwt.lowlevel.mypad'],
    'explanation': 'C19: both filter banks are run on the same input atoms; each output element of one minus the other is a polynomial that '
                   'must stay within tau. With SYMBOLIC taps (one atom per filter tap, column and row filters of different lengths) one run '
                   'covers every filter of those lengths; with concrete taps the filter-preparation code (flips, outer products) is covered too. '
                   'If one bank raises, the other must raise as well.',
    'bounds': {'quick': {'concrete': {'wavelets': WAVES_Q, 'pairs (col,row)': 'same wavelet + (db2,bior1.3),(bior2.4,haar)', 'modes': MODES, 'shapes': SHAPES_Q, 'B,C': '(1,1); (2,2) on a slice'},
                         'symbolic taps': {'(Lc,Lr)': [(2, 2), (4, 4), (2, 4), (4, 2), (6, 4)], 'modes': MODES, 'shapes': [(4, 4), (5, 6), (7, 5), (8, 8)]}},
               'thorough': {'concrete': 'one wavelet per (family, L<=12), all shapes 2..10 squared', 'symbolic taps': '(Lc,Lr) in {2,4,6,8}^2, shapes {3..9}^2 subset'}},
    'outside': 'periodic mode of the non-separable bank (not accepted by both); sizes beyond the lists; in-place folds whose operands overlap '
               'without being dense (torch leaves the result unspecified: configuration skipped and counted)',
    'assumptions': ['real-arithmetic semantics', 'tap atoms range over [-1,1]'],
}


def configs(tier, seed):
    out = []
    pairs = [(w, w) for w in (WAVES_Q if tier == 'quick' else _thorough_waves())] + [('db2', 'bior1.3'), ('bior2.4', 'haar')]
    shapes = SHAPES_Q if tier == 'quick' else [(h, w) for h in range(2, 11) for w in range(2, 11)]
    for (wc, wr) in pairs:
        for mode in MODES:
            for k, (h, w) in enumerate(shapes):
                if tier == 'thorough' and (k + seed + len(wc)) % 3 and h != w:
                    continue
                for bank in ('analysis', 'synthesis'):
                    out.append(dict(taps='concrete', wc=wc, wr=wr, mode=mode, H=h, W=w, B=1, C=1, bank=bank))
    for mode in MODES:
        out.append(dict(taps='concrete', wc='db2', wr='db2', mode=mode, H=6, W=7, B=2, C=2, bank='analysis'))
        out.append(dict(taps='concrete', wc='db2', wr='db2', mode=mode, H=6, W=7, B=2, C=2, bank='synthesis'))
    if tier == 'quick':
        Ls = [(2, 2), (4, 4), (2, 4), (4, 2), (6, 4)]; sh = [(4, 4), (5, 6), (7, 5), (8, 8)]
    else:
        Ls = [(a, b) for a in (2, 4, 6, 8) for b in (2, 4, 6, 8)]; sh = [(3, 3), (4, 4), (5, 6), (7, 5), (8, 8), (9, 6)]
    for (lc, lr) in Ls:
        for mode in MODES:
            for (h, w) in sh:
                for bank in ('analysis', 'synthesis'):
                    out.append(dict(taps='symbolic', Lc=lc, Lr=lr, mode=mode, H=h, W=w, B=1, C=1, bank=bank))
    return out


def _thorough_waves():
    seen = set(); out = []
    for w in pywt.wavelist(kind='discrete'):
        wv = pywt.Wavelet(w)
        key = (wv.family_name, wv.dec_len)
        if wv.dec_len <= 12 and key not in seen:
            seen.add(key); out.append(w)
    return out


def _filters(cfg, bank):
    wc = pywt.Wavelet(cfg['wc']); wr = pywt.Wavelet(cfg['wr'])
    if bank == 'analysis':
        return [np.array(wc.dec_lo), np.array(wc.dec_hi), np.array(wr.dec_lo), np.array(wr.dec_hi)]
    return [np.array(wc.rec_lo), np.array(wc.rec_hi), np.array(wr.rec_lo), np.array(wr.rec_hi)]


def _coef_shape(cfg):
    """spatial shape of the one-level coefficient arrays for synthesis inputs"""
    Lc = cfg['Lc'] if cfg['taps'] == 'symbolic' else pywt.Wavelet(cfg['wc']).dec_len
    Lr = cfg['Lr'] if cfg['taps'] == 'symbolic' else pywt.Wavelet(cfg['wr']).dec_len
    return (pywt.dwt_coeff_len(cfg['H'], Lc, cfg['mode']), pywt.dwt_coeff_len(cfg['W'], Lr, cfg['mode']))


def _run_pair(tm, ll, cfg, x, filt_args):
    """-> (outcome separable, outcome non-separable); x: input tensor (analysis) or coeff tensor (N,C,4,h,w) (synthesis)"""
    mode = cfg['mode']
    if cfg['bank'] == 'analysis':
        fs, fn = filt_args
        a = core.outcome(lambda: ll.afb2d(x, fs, mode))
        b = core.outcome(lambda: ll.afb2d_nonsep(x, fn, mode))
    else:
        fs, fn = filt_args
        a = core.outcome(lambda: ll.sfb2d(x[:, :, 0], x[:, :, 1], x[:, :, 2], x[:, :, 3], fs, mode))
        b = core.outcome(lambda: ll.sfb2d_nonsep(x, fn, mode))
    return a, b


def _sym_filter_tensors(cfg):
    """symbolic taps -> (separable 4-tuple of tensors, non-separable (4,1,Ly,Lx) tensor) built as the prep functions would"""
    Lc, Lr = cfg['Lc'], cfg['Lr']
    names = ['f0c', 'f1c', 'f0r', 'f1r']
    lens = [Lc, Lc, Lr, Lr]
    taps = []; ids = []
    for nm, L in zip(names, lens):
        t, i = core.symin((L,), kind='par', name=nm)
        taps.append(t.a); ids.append(i)
    f0c, f1c, f0r, f1r = taps
    ana = cfg['bank'] == 'analysis'

    def col(v):
        v = v[::-1] if ana else v
        return T.Tensor(np.ascontiguousarray(v).reshape(1, 1, -1, 1), T.float64)

    def row(v):
        v = v[::-1] if ana else v
        return T.Tensor(np.ascontiguousarray(v).reshape(1, 1, 1, -1), T.float64)
    sep = (col(f0c), col(f1c), row(f0r), row(f1r))
    bands = []
    for cvec, rvec in ((f0c, f0r), (f1c, f0r), (f0c, f1r), (f1c, f1r)):
        o = np.empty((len(cvec), len(rvec)), dtype=object)
        for i in range(len(cvec)):
            for j in range(len(rvec)):
                o[i, j] = cvec[i] * rvec[j]
        if ana:
            o = o[::-1, ::-1]
        bands.append(o[None])
    non = T.Tensor(np.ascontiguousarray(np.stack(bands, axis=0)), T.float64)
    return sep, non, ids


def _real_filter_tensors(cfg, vals):
    rt = symtorch.real_torch()
    ana = cfg['bank'] == 'analysis'
    f0c, f1c, f0r, f1r = [np.asarray(v, dtype=float) for v in vals]
    fl = (lambda v: v[::-1].copy()) if ana else (lambda v: v.copy())
    sep = (rt.tensor(fl(f0c)).reshape(1, 1, -1, 1), rt.tensor(fl(f1c)).reshape(1, 1, -1, 1),
           rt.tensor(fl(f0r)).reshape(1, 1, 1, -1), rt.tensor(fl(f1r)).reshape(1, 1, 1, -1))
    bands = []
    for cvec, rvec in ((f0c, f0r), (f1c, f0r), (f0c, f1r), (f1c, f1r)):
        o = np.outer(cvec, rvec)
        if ana:
            o = o[::-1, ::-1]
        bands.append(o[None])
    non = rt.tensor(np.ascontiguousarray(np.stack(bands, axis=0)))
    return sep, non


def _facts(cfg):
    return dict(bank=cfg['bank'], mode=cfg['mode'], taps=cfg['taps'])


def run_config(cfg):
    res = core.Result(cfg)
    core.begin()
    facts = _facts(cfg)
    rt = symtorch.real_torch()
    B, C = cfg['B'], cfg['C']
    if cfg['bank'] == 'analysis':
        shape = (B, C, cfg['H'], cfg['W'])
    else:
        h, w = _coef_shape(cfg)
        shape = (B, C, 4, h, w)
    t0 = time.time()
    with symtorch.symbolic():
        sll = symtorch.sym('pytorch_wavelets.dwt.lowlevel')
        x, ids = core.symin(shape)
        if cfg['taps'] == 'symbolic':
            sep, non, tap_ids = _sym_filter_tensors(cfg)
            fa = (sep, non)
        else:
            fl = _filters(cfg, cfg['bank'])
            fa = (fl, fl)
        sa, sb = _run_pair(T, sll, cfg, x, fa)
    res.symexec_s = time.time() - t0
    res.funcs = ['pytorch_wavelets.dwt.lowlevel.' + ('afb2d' if cfg['bank'] == 'analysis' else 'sfb2d'),
                 'pytorch_wavelets.dwt.lowlevel.' + ('afb2d_nonsep' if cfg['bank'] == 'analysis' else 'sfb2d_nonsep')]
    if T.STATE.overlap_unspecified:
        res.status = 'skipped'; res.notes.append('in-place fold with overlapping non-dense operands: torch result unspecified')
        return res
    # real torch, same configuration
    rll = symtorch.real('pytorch_wavelets.dwt.lowlevel')
    E, n = D.basis_batch(shape)
    rng = np.random.default_rng(7)
    if cfg['taps'] == 'symbolic':
        tapvals = [rng.uniform(-1, 1, size=i.shape) for i in tap_ids]
        rfa = _real_filter_tensors(cfg, tapvals)
    else:
        rfa = (fl, fl)
    # outcome (raise / return) is compared on the actual batch shape; values on the batched basis
    r1a, r1b = _run_pair(rt, rll, cfg, rt.tensor(rng.uniform(-1, 1, size=shape), dtype=rt.float64), rfa)
    for s_, r_ in ((sa, r1a), (sb, r1b)):
        if not D.same_outcome(res, s_, r_):
            return res
    if sa[0] == 'raise' or sb[0] == 'raise':
        if sa[0] == sb[0]:
            res.notes.append('both banks raise (%s / %s)' % (sa[1], sb[1]))
            return res
        bad = sa if sa[0] == 'raise' else sb
        if 'single memory location' in bad[2]:
            res.status = 'skipped'
            res.notes.append('one bank is refused by torch (in-place fold on overlapping dense views, short signal): not accepted by both')
            return res
        res.status = 'violation'
        res.violations.append(dict(what='only the %s bank raises (%s)' % ('separable' if sa[0] == 'raise' else 'non-separable', (sa if sa[0] == 'raise' else sb)[1:3]),
                                   facts=facts, replay=dict(kind='raise'), reproduced=True))
        return res
    ra, rb = _run_pair(rt, rll, cfg, rt.tensor(E, dtype=rt.float64), rfa)
    if ra[0] != 'ok' or rb[0] != 'ok':
        res.status = 'error'; res.trace = 'real torch raises on the batched basis but not on the actual shape: %r %r' % (ra[:3], rb[:3])
        return res
    ya, yb = sa[1], sb[1]
    if tuple(ya.shape) != tuple(yb.shape):
        res.status = 'violation'
        res.violations.append(dict(what='output shapes differ: separable %s, non-separable %s' % (tuple(ya.shape), tuple(yb.shape)), facts=facts,
                                   replay=dict(kind='shape'), reproduced=tuple(ra[1].shape[1:]) != tuple(rb[1].shape[1:])))
        return res
    # engine validation
    if cfg['taps'] == 'symbolic':
        env = {}
        for i, v in zip(tap_ids, tapvals):
            for a, val in zip(i.reshape(-1), v.reshape(-1)):
                env[int(a)] = Poly.const(float(val))
        sub = lambda arr: np.array([p.subst(env) for p in arr.reshape(-1)], dtype=object).reshape(arr.shape)
        va, vb = sub(ya.a), sub(yb.a)
    else:
        va, vb = ya.a, yb.a
    dev = D.validate_linear([va, vb], [ra[1], rb[1]], ids, n, B)
    res.validated = dev
    scale = max(1.0, float(np.abs(D.unbatch(ra[1], n, B)).sum(axis=1).max()))
    if dev > 1e-9 * scale:
        res.status = 'error'; res.trace = 'symbolic operator deviates from real torch by %g' % dev
        return res
    tau = Fraction(1, 10 ** 9) * Fraction(scale if cfg['taps'] == 'concrete' else max(1, cfg['Lc'] * cfg['Lr']))
    st = smt.Stats(); solver = smt.Solver(stats=st, timeout_ms=60000, nl_timeout_ms=20000)
    sats = D.decide_bands(res, solver, [ya.a], [list(yb.a.reshape(-1))], tau, ['sep_minus_nonsep'])
    d0 = ya.a.reshape(-1)[0] - yb.a.reshape(-1)[0]
    if not D.canary_ok(res, d0, ids.reshape(-1)[0], tau):
        return res
    res.stats = st
    for name, k, model in sats:
        xv = core.model_array(model, ids)
        tv = [core.model_array(model, i).tolist() for i in tap_ids] if cfg['taps'] == 'symbolic' else None
        rep = _replay_values(cfg, xv, tv, k, float(tau))
        res.violations.append(dict(what='output element %d: separable and non-separable banks differ by %.3g' % (k, rep['diff']), facts=facts,
                                   replay=dict(kind='values', x=xv.tolist(), taps=tv, k=int(k), tau=float(tau)), reproduced=rep['reproduced']))
    if res.violations:
        res.status = 'violation'
    return res


def _replay_values(cfg, xv, tv, k, tau):
    rt = symtorch.real_torch()
    rll = symtorch.real('pytorch_wavelets.dwt.lowlevel')
    if tv is not None:
        rfa = _real_filter_tensors(cfg, tv)
    else:
        fl = _filters(cfg, cfg['bank']); rfa = (fl, fl)
    a, b = _run_pair(rt, rll, cfg, rt.tensor(xv, dtype=rt.float64), rfa)
    if a[0] != 'ok' or b[0] != 'ok':
        return dict(reproduced=a[0] != b[0], diff=float('inf'))
    if tuple(a[1].shape) != tuple(b[1].shape):
        return dict(reproduced=True, diff=float('inf'))
    diff = abs(float(a[1].reshape(-1)[k]) - float(b[1].reshape(-1)[k]))
    return dict(reproduced=diff > tau / 2, diff=diff)


def replay(payload):
    cfg = payload['config']; rp = payload['replay']
    core.begin()
    rt = symtorch.real_torch()
    if rp['kind'] == 'values':
        r = _replay_values(cfg, np.array(rp['x']), rp['taps'], rp['k'], rp['tau'])
        return dict(reproduced=r['reproduced'], detail=r)
    B, C = cfg['B'], cfg['C']
    shape = (B, C, cfg['H'], cfg['W']) if cfg['bank'] == 'analysis' else (B, C, 4) + _coef_shape(cfg)
    if cfg['taps'] == 'symbolic':
        rng = np.random.default_rng(7)
        rfa = _real_filter_tensors(cfg, [rng.uniform(-1, 1, size=(L,)) for L in (cfg['Lc'], cfg['Lc'], cfg['Lr'], cfg['Lr'])])
    else:
        fl = _filters(cfg, cfg['bank']); rfa = (fl, fl)
    a, b = _run_pair(rt, symtorch.real('pytorch_wavelets.dwt.lowlevel'), cfg, rt.zeros(*shape, dtype=rt.float64), rfa)
    if rp['kind'] == 'raise':
        return dict(reproduced=(a[0] == 'raise') != (b[0] == 'raise'), detail=[a[:3], b[:3]])
    return dict(reproduced=a[0] == 'ok' and b[0] == 'ok' and tuple(a[1].shape) != tuple(b[1].shape), detail='shape')
