"""C16 — dtype is preserved, converted modules behave like constructed ones, float32 tap quantisation is float32-accurate,
non-contiguous inputs give the same values (claimed in part: rounding of the arithmetic inside ATen kernels is not encodable)."""
import numpy as np
import pywt
from fractions import Fraction
import symtorch
from symtorch import poly as P, tensor as T
from symtorch.poly import Poly
from vlib import core, smt, lincheck
from harness import dwtlib as D, dtlib as DT
from harness import C07

KINDS = C07.KINDS

META = {
    'functions': C07.META['functions'] + ['pytorch_wavelets.dwt.lowlevel.prep_filt_afb1d', 'pytorch_wavelets.dwt.lowlevel.prep_filt_sfb1d', 'pytorch_wavelets.dtcwt.lowlevel.prep_filt',
                                          'torch.nn.Module.double/float (shim model)'],
    'explanation': 'C16 (partial): (a) dtype flow - for module precision in {constructed under float32 default, constructed under float64 default, .double(), .float()} x input '
                   'precision {float32, float64} the symbolic run (dtype tags propagated with torch\'s promotion rules and kernel dtype errors) either raises where real torch '
                   'raises or returns tensors carrying the input dtype; a converted module must equal the constructed one (exact identity of the symbolic outputs; None levels '
                   'included); (b) tap quantisation - the real-arithmetic transform with taps rounded to float32 exactly as torch.tensor(..., dtype=float32) does, minus the float64 '
                   'one, must stay within 64*eps32*gain for every input in [-1,1]^n (z3, linear residual); (c) strided inputs - runs on sliced / transposed / stepped symbolic views '
                   'must equal runs on their contiguous copies; (d) finite_scat - every reciprocal atom created by the symbolic forward run of a scattering layer (magbias 0 and 0.01) has an argument whose interval enclosure over |x| <= 1 excludes 0, else an exact witness (all-zero / one-pixel image) is replayed on real torch in float32 and float64 and must give a non-finite output to be reported (interval / witness decision, no z3 query; the unchanged library divides nowhere in these passes). NOT decided: floating-point rounding of the arithmetic inside ATen/oneDNN kernels.',
    'bounds': {'added_families': ['finite_scat: ScatLayer 4x4 (C=1; colour C=3), ScatLayerj2 8x8, magbias in {0, 0.01}', 'stride-0 expanded channel view', 'ScatLayer view checks (expand, chlast, transposed, chanslice)'],
               'quick': {'transforms': KINDS, 'configs per transform': 2, 'precision combinations': 8, 'views': ['x[..., ::2]', 'transposed', 'channel slice of a wider tensor', 'batch-offset slice', 'channels_last / NHWC-permuted storage']},
               'thorough': {'configs per transform': 5, 'finite_scat': 'also 4 biorts x (6x6, 5x7, 2x2) C=2, second order 8x16 and colour 8x8, magbias 0'}},
    'outside': 'rounding/accumulation order inside kernels (a cancellation-prone reformulation is invisible here); half/bfloat16 kernels; CUDA',
    'assumptions': ['real-arithmetic semantics with exact float32 quantisation of constants', 'NumPy strides stand in for torch strides (.view raises on the same layouts)'],
}


def _base(tier):
    d = [dict(kind='dwt1f', wave='db3', mode='symmetric', J=2, N=11), dict(kind='dwt1i', wave='bior2.4', mode='zero', J=2, N=12),
         dict(kind='dwt2f', wave='db2', mode='periodization', J=2, H=6, W=8), dict(kind='dwt2i', wave='db2', mode='symmetric', J=2, H=6, W=7),
         dict(kind='dwt2i', wave='db2', mode='zero', J=2, H=6, W=8, none=[1, 0]),
         dict(kind='swt', wave='db2', mode='periodization', J=2, H=4, W=8), dict(kind='dtf', biort='near_sym_a', qshift='qshift_a', J=2, H=6, W=8),
         dict(kind='dti', biort='near_sym_b', qshift='qshift_b', J=2, H=8, W=8), dict(kind='dwt1i', wave='db2', mode='periodization', J=2, N=8, none=[0, 1])]
    if tier == 'thorough':
        d += [dict(kind='dwt1f', wave='dmey', mode='zero', J=1, N=70), dict(kind='dwt2f', wave='bior3.1', mode='reflect', J=1, H=7, W=9),
              dict(kind='dtf', biort='antonini', qshift='qshift_d', J=3, H=8, W=8), dict(kind='dti', biort='legall', qshift='qshift_06', J=2, H=5, W=7),
              dict(kind='swt', wave='sym4', mode='periodic', J=1, H=6, W=6), dict(kind='dwt2i', wave='sym4', mode='periodic', J=1, H=9, W=8)]
    return d


def configs(tier, seed):
    out = []
    for b in _base(tier):
        for how in ('ctor32', 'ctor64', 'to_double', 'to_float'):
            for xd in ('float32', 'float64'):
                out.append(dict(b, check='dtype', how=how, xdtype=xd, B=1, C=2))
        if not b.get('none'):
            out.append(dict(b, check='quant', B=1, C=1))
            for view in ('step2', 'transposed', 'chanslice', 'flipbatch', 'chlast', 'expand'):
                out.append(dict(b, check='view', view=view, B=2, C=2))
    for view in ('expand', 'chlast', 'transposed', 'chanslice'):
        out.append(dict(kind='scat1', biort='near_sym_a', magbias=0.01, H=4, W=4, colour=False, B=2, C=3, check='view', view=view))
    out.append(dict(kind='scat1', biort='near_sym_b_bp', magbias=0.01, H=4, W=4, colour=True, B=1, C=3, check='view', view='expand'))
    for sc in [dict(kind='scat1', biort='near_sym_a', magbias=0.01, H=4, W=4, colour=False, B=1, C=2), dict(kind='scat1', biort='near_sym_a', magbias=0.01, H=4, W=4, colour=True, B=1, C=3),
               dict(kind='scat1', biort='near_sym_b_bp', magbias=0.01, H=4, W=4, colour=True, B=1, C=3), dict(kind='scat2', biort='near_sym_a', qshift='qshift_a', magbias=0.01, H=8, W=8, colour=False, B=1, C=1),
               dict(kind='scat2', biort='near_sym_a', qshift='qshift_a', magbias=0.01, H=8, W=8, colour=True, B=1, C=3)]:
        for how in ('ctor32', 'ctor64', 'to_double', 'to_float'):
            for xd in ('float32', 'float64'):
                if (how in ('ctor32', 'to_float')) == (xd == 'float32'):
                    out.append(dict(sc, check='dtype', how=how, xdtype=xd))
    out.append(dict(kind='scat1', check='quant_scat', biort='near_sym_a', magbias=0.01, H=4, W=4))
    # no forward division can meet a zero divisor (non-finite output), incl. magbias = 0 and the all-zero image
    for mb in (0.0, 0.01):
        out.append(dict(kind='scat1', check='finite_scat', biort='near_sym_a', magbias=mb, H=4, W=4, C=1))
        out.append(dict(kind='scat1', check='finite_scat', biort='near_sym_b_bp', magbias=mb, H=4, W=4, C=3, colour=True))
        out.append(dict(kind='scat2', check='finite_scat', biort='near_sym_a', qshift='qshift_a', magbias=mb, H=8, W=8, C=1))
    out.append(dict(kind='scat1', check='quant_scat', biort='near_sym_b', magbias=0.01, H=4, W=4))
    out.append(dict(kind='scat2', check='quant_scat', biort='near_sym_a', qshift='qshift_a', magbias=0.01, H=8, W=8))
    if tier == 'thorough':
        out.append(dict(kind='scat2', check='quant_scat', biort='near_sym_b_bp', qshift='qshift_b_bp', magbias=0.01, H=8, W=8))
        out.append(dict(kind='scat1', check='quant_scat', biort='antonini', magbias=1.0, H=6, W=6))
        for bi in ('near_sym_b', 'antonini', 'legall', 'near_sym_b_bp'):
            for (h, w) in ((6, 6), (5, 7), (2, 2)):
                out.append(dict(kind='scat1', check='finite_scat', biort=bi, magbias=0.0, H=h, W=w, C=2))
        out.append(dict(kind='scat2', check='finite_scat', biort='near_sym_b', qshift='qshift_b', magbias=0.0, H=8, W=16, C=1))
        out.append(dict(kind='scat2', check='finite_scat', biort='near_sym_a', qshift='qshift_a', magbias=0.0, H=8, W=8, C=3, colour=True))
    return out


def _dt(tt, name):
    return getattr(tt, name)


def _specs(cfg, B, C):
    if cfg['kind'].startswith('scat'):
        return [('x', (B, C, cfg['H'], cfg['W']))]
    return C07._slice_specs(cfg, B, C)


def _mk(pw, cfg):
    if cfg['kind'].startswith('scat'):
        kw = dict(biort=cfg['biort'], magbias=cfg['magbias'], combine_colour=bool(cfg.get('colour')))
        if cfg['kind'] == 'scat2':
            kw['qshift'] = cfg['qshift']
            return pw.ScatLayerj2(**kw)
        return pw.ScatLayer(**kw)
    return C07._module(pw, cfg)


def _build(pw, cfg, how):
    """module in the requested precision; returns (module, precision name)"""
    tt = C07._tt(pw)
    prev = tt.get_default_dtype()
    try:
        if how == 'ctor32':
            tt.set_default_dtype(tt.float32); m = _mk(pw, cfg); prec = 'float32'
        elif how == 'ctor64':
            tt.set_default_dtype(tt.float64); m = _mk(pw, cfg); prec = 'float64'
        elif how == 'to_double':
            tt.set_default_dtype(tt.float32); m = _mk(pw, cfg).double(); prec = 'float64'
        else:
            tt.set_default_dtype(tt.float64); m = _mk(pw, cfg).float(); prec = 'float32'
    finally:
        tt.set_default_dtype(prev)
    return m, prec


def _apply(m, cfg, ts):
    if cfg['kind'].startswith('scat'):
        return [m(ts[0])]
    if cfg.get('none') and cfg['kind'] in ('dwt1i', 'dwt2i'):
        hs = [None if cfg['none'][j] else h for j, h in enumerate(ts[1:])]
        return [m((ts[0], hs))]
    return C07._apply(m, cfg, ts)


def _run_dtype(res, cfg):
    """symbolic vs real outcome + dtype tags; converted module == constructed module"""
    rt = symtorch.real_torch()
    specs = _specs(cfg, cfg['B'], cfg['C'])
    how, xd = cfg['how'], cfg['xdtype']
    twin = {'to_double': 'ctor64', 'to_float': 'ctor32'}.get(how)
    facts = dict(check='dtype', kind=cfg['kind'], how=how, xdtype=xd, none=bool(cfg.get('none')))
    rng = np.random.default_rng(4)
    xs = [rng.uniform(-1, 1, size=s) for _, s in specs]
    with symtorch.symbolic():
        st = symtorch.shim()
        tens = []; ids = []
        for nm, s in specs:
            t, i = core.symin(tuple(s), name=nm, dtype=_dt(st, xd))
            tens.append(t); ids.append(i)

        def srun(h):
            m, prec = _build(symtorch.sym(), cfg, h)
            return _apply(m, cfg, tens), prec
        so = core.outcome(lambda: srun(how))
        so2 = core.outcome(lambda: srun(twin)) if twin else None
    res.funcs = sorted(T.STATE.funcs_entered)

    def rrun(h):
        m, prec = _build(symtorch.real(), cfg, h)
        return _apply(m, cfg, [rt.tensor(x, dtype=_dt(rt, xd)) for x in xs]), prec
    ro = core.outcome(lambda: rrun(how))
    if not D.same_outcome(res, so, ro):
        return res
    prec = {'ctor32': 'float32', 'ctor64': 'float64', 'to_double': 'float64', 'to_float': 'float32'}[how]
    if so[0] == 'raise':
        if prec != xd:
            res.notes.append('module precision %s != input %s: torch refuses (%s)' % (prec, xd, so[1])); res.nontrivial = True
            return res
        res.status = 'violation'
        res.violations.append(dict(what='%s module (%s) raises %s: %s on a %s input' % (prec, how, so[1], so[2][:100], xd), facts=facts, replay=dict(kind='dtype'), reproduced=True))
        return res
    outs, _ = so[1]; routs, _ = ro[1]
    res.nontrivial = True
    for o, r in zip(outs, routs):
        rd = str(r.dtype).replace('torch.', '')
        if o.dtype.name != rd:
            res.status = 'error'; res.trace = 'dtype tag %s differs from real torch %s' % (o.dtype.name, rd); return res
        if rd != xd:
            res.status = 'violation'
            res.violations.append(dict(what='output dtype %s for a %s input (module %s via %s)' % (rd, xd, prec, how), facts=facts, replay=dict(kind='dtype'), reproduced=True))
            return res
    # engine validation at the sample point (float32 runs compared loosely: arithmetic rounding is outside the model)
    env = P.AtomEnv()
    for i, x in zip(ids, xs):
        for a, v in zip(i.reshape(-1), (x.astype(np.float32).astype(np.float64) if xd == 'float32' else x).reshape(-1)):
            env[int(a)] = float(v)
    dev = 0.0
    for o, r in zip(outs, routs):
        sv = np.array([p.evalf(env) for p in o.a.reshape(-1)]); rv = r.detach().double().numpy().reshape(-1)
        dev = max(dev, float(np.abs(sv - rv).max()) if sv.size else 0.0)
    res.validated = dev
    if dev > (1e-9 if xd == 'float64' else 1e-4):
        res.status = 'error'; res.trace = 'symbolic values deviate from real torch by %g' % dev; return res
    if twin and so2 is not None and cfg['kind'].startswith('scat'):
        twin = None      # non-linear layer: the converted module is compared with real torch at the sample point only
    if twin and so2 is not None:
        if so2[0] != 'ok':
            res.status = 'violation'
            res.violations.append(dict(what='constructed twin (%s) outcome %s differs from converted module' % (twin, so2[:2]), facts=facts, replay=dict(kind='dtype'), reproduced=True)); return res
        stt = smt.Stats(); solver = smt.Solver(stats=stt)
        # .float() of a float64-constructed module rounds the same doubles as construction under float32: exact.
        # .double() of a float32-constructed module keeps the float32-rounded taps (torch semantics): equal to the
        # float64-constructed module only up to the tap quantisation, bounded like check (b).
        if how == 'to_float':
            tau = Fraction(1, 10 ** 12)
        else:
            g = 1.0
            all_ids = np.concatenate([i.reshape(-1) for i in ids])
            for o in outs:
                try:
                    M, _ = core.lin_table(o.a, all_ids)
                    g = max(g, float(np.abs(M).sum(axis=1).max()) if M.size else 1.0)
                except ValueError:
                    pass
            tau = Fraction(64 * 2.0 ** -23 * g).limit_denominator(10 ** 15)
        for k, (a, b) in enumerate(zip(outs, so2[1][0])):
            sats = D.decide_bands(res, solver, [a.a], [list(b.a.reshape(-1))], tau, ['converted_vs_constructed%d' % k], max_sat=1)
            for name, e, model in sats:
                xv = [core.model_array(model, i) for i in ids]
                ra, _ = rrun(how) if False else (None, None)
                m1, _ = _build(symtorch.real(), cfg, how); m2, _ = _build(symtorch.real(), cfg, twin)
                r1 = _apply(m1, cfg, [rt.tensor(x, dtype=_dt(rt, xd)) for x in xv]); r2 = _apply(m2, cfg, [rt.tensor(x, dtype=_dt(rt, xd)) for x in xv])
                diff = abs(float(r1[k].reshape(-1)[e]) - float(r2[k].reshape(-1)[e]))
                res.violations.append(dict(what='module converted with %s differs from the one constructed in that precision by %.3g' % (how, diff), facts=facts,
                                           replay=dict(kind='dtype'), reproduced=diff > float(tau) / 2))
        res.stats = stt
        if res.violations:
            res.status = 'violation'
    return res


def _run_quant(res, cfg):
    """|T32(x) - T64(x)| <= 64 eps32 gain, taps quantised exactly, arithmetic exact"""
    specs = C07._slice_specs(cfg, 1, 1)
    facts = dict(check='quant', kind=cfg['kind'])
    rt = symtorch.real_torch()
    with symtorch.symbolic():
        st = symtorch.shim()
        tens = []; ids = []
        for nm, s in specs:
            t, i = core.symin(tuple(s), name=nm, dtype=st.float64)
            tens.append(t); ids.append(i)
        m64, _ = _build(symtorch.sym(), cfg, 'ctor64')
        m32, _ = _build(symtorch.sym(), cfg, 'ctor32')
        # run the float32-constructed module on the same exact atoms: re-tag its buffers (values keep the float32 rounding)
        for mod in m32.modules():
            for n_, b_ in list(mod._buffers.items()):
                mod._buffers[n_] = T.Tensor(b_.a, st.float64)
            for n_, p_ in list(mod._parameters.items()):
                q = T.Parameter(T.Tensor(p_.a, st.float64), p_.requires_grad); mod._parameters[n_] = q
        so64 = core.outcome(lambda: _apply(m64, cfg, tens))
        so32 = core.outcome(lambda: _apply(m32, cfg, tens))
    res.funcs = sorted(T.STATE.funcs_entered)
    if so64[0] != 'ok' or so32[0] != 'ok':
        if 'unsupported' in (so64[0], so32[0]):
            res.status = 'inconclusive'; res.notes.append(str((so64[:2], so32[:2]))); return res
        res.status = 'skipped'; res.notes.append('transform raises: %s %s' % (so64[:2], so32[:2])); return res
    all_ids = np.concatenate([i.reshape(-1) for i in ids])
    gain = 1.0
    for o in so64[1]:
        M, _ = core.lin_table(o.a, all_ids)
        if M.size:
            gain = max(gain, float(np.abs(M).sum(axis=1).max()))
    eps32 = 2.0 ** -23
    tau = Fraction(64 * eps32 * gain).limit_denominator(10 ** 15)
    stt = smt.Stats(); solver = smt.Solver(stats=stt)
    # cross-check the float32 taps against real torch's float32 buffers
    mr, _ = _build(symtorch.real(), cfg, 'ctor32')
    ms, _ = (m32, None)
    for (n1, b1), (n2, b2) in zip(sorted(dict(mr.named_buffers()).items()), sorted(dict(ms.named_buffers()).items())):
        sv = np.array([float(p) for p in b2.a.reshape(-1)]); rv = b1.detach().double().numpy().reshape(-1)
        if sv.shape != rv.shape or (sv.size and np.abs(sv - rv).max() > 0):
            res.status = 'error'; res.trace = 'float32 buffer %s differs from real torch' % n1; return res
    res.validated = 0.0
    for k, (a, b) in enumerate(zip(so32[1], so64[1])):
        sats = D.decide_bands(res, solver, [a.a], [list(b.a.reshape(-1))], tau, ['T32_minus_T64_%d' % k], max_sat=1)
        for name, e, model in sats:
            xv = [core.model_array(model, i) for i in ids]
            m1, _ = _build(symtorch.real(), cfg, 'ctor32'); m2, _ = _build(symtorch.real(), cfg, 'ctor64')
            r1 = _apply(m1, cfg, [rt.tensor(x, dtype=rt.float32) for x in xv]); r2 = _apply(m2, cfg, [rt.tensor(x, dtype=rt.float64) for x in xv])
            diff = abs(float(r1[k].reshape(-1)[e]) - float(r2[k].reshape(-1)[e]))
            res.violations.append(dict(what='float32 result differs from float64 result by %.3g > 64*eps32*gain = %.3g' % (diff, float(tau)), facts=facts,
                                       replay=dict(kind='quant', xs=[x.tolist() for x in xv], out=k, e=int(e), tau=float(tau)), reproduced=diff > float(tau) / 2))
    res.stats = stt
    if res.violations:
        res.status = 'violation'
    return res


def _scat_layer(pw, cfg):
    kw = dict(biort=cfg['biort'], magbias=cfg['magbias'], combine_colour=False)
    if cfg['kind'] == 'scat2':
        kw['qshift'] = cfg['qshift']
        return pw.ScatLayerj2(**kw)
    return pw.ScatLayer(**kw)


def _build_scat(pw, cfg, prec):
    tt = C07._tt(pw)
    prev = tt.get_default_dtype()
    try:
        tt.set_default_dtype(tt.float32 if prec == 'float32' else tt.float64)
        return _scat_layer(pw, cfg)
    finally:
        tt.set_default_dtype(prev)


def _run_quant_scat(res, cfg):
    """float32-constructed scattering layer vs float64 one, exact arithmetic, on small inputs (|x| <= s) where the bias dominates:
    the two expression DAGs are compared sqrt atom by sqrt atom (|q32 - q64| <= 2 b tau_r  =>  |r32 - r64| <= tau_r) and output by output."""
    rt = symtorch.real_torch()
    b = cfg['magbias']; bF = Fraction(float(b))
    eps32 = 2.0 ** -23
    facts = dict(check='quant', kind=cfg['kind'])
    H, W = cfg['H'], cfg['W']
    stt = smt.Stats()
    for s_ in cfg.get('scales', [0.01, 0.001]):
        core.begin()
        sF = Fraction(s_).limit_denominator(10 ** 6)
        with symtorch.symbolic():
            st = symtorch.shim()
            x, ids = core.symin((1, 1, H, W), dtype=st.float64)
            P.PURIFY_LINEAR[0] = 0
            n0 = len(P.ATOMS)
            so64 = core.outcome(lambda: _build_scat(symtorch.sym(), cfg, 'float64')(x))
            n1 = len(P.ATOMS)
            P.ATOMS.memo.clear()
            l32 = _build_scat(symtorch.sym(), cfg, 'float32')
            x32 = T.Tensor(x.a, st.float32)          # the same atoms, tagged float32: dtype-dependent code takes its float32 branch
            so32 = core.outcome(lambda: l32(x32))
            n2 = len(P.ATOMS)
        res.funcs = sorted(set(res.funcs) | T.STATE.funcs_entered)
        if so64[0] != 'ok' or so32[0] != 'ok':
            if 'unsupported' in (so64[0], so32[0]):
                res.status = 'inconclusive'; res.notes.append(str((so64[:2], so32[:2]))); return res
            res.status = 'skipped'; res.notes.append('layer raises: %s %s' % (so64[:2], so32[:2])); return res
        Z64, Z32 = so64[1].a.reshape(-1), so32[1].a.reshape(-1)
        sq64 = [a for a in range(n0, n1) if P.ATOMS.kind[a] == 'sqrt']
        sq32 = [a for a in range(n1, n2) if P.ATOMS.kind[a] == 'sqrt']
        if len(sq64) != len(sq32) or len(Z64) != len(Z32):
            res.status = 'inconclusive'; res.notes.append('float32 and float64 runs have different structure (%d vs %d sqrt atoms)' % (len(sq32), len(sq64))); return res
        solver = smt.Solver(stats=stt, default_box=(-sF, sF))
        # gain of the linear part
        gain = 1.0
        for p in Z64:
            if p.is_linear():
                gain = max(gain, sum(abs(float(v)) for k, v in p.t.items() if k))
        tau_r = Fraction(64 * eps32 * (gain * float(s_) + float(b))).limit_denominator(10 ** 18)      # outputs
        tau_i = tau_r / 8                                                                                # inner magnitudes (error budget of the cascade)
        tau_q = 2 * bF * tau_i if b > 0 else tau_i * tau_i
        solver.auto_bounds(sq64, floor=bF)
        mapping = {}; mapping64 = {}
        bad = None
        for a32, a64 in zip(sq32, sq64):
            q32 = P.ATOMS.info[a32].subst(mapping); q64 = P.ATOMS.info[a64].subst(mapping64)
            inner = all(P.ATOMS.kind[z] == 'in' for z in P.ATOMS.info[a64].atoms())
            tq = tau_q if inner else (2 * bF * tau_r if b > 0 else tau_r * tau_r)
            v, model = solver.decide(q32 - q64, tq, label='radicand of sqrt atom %d' % a64, grid_bits=64)
            res.nontrivial = True
            if v == 'sat':
                bad = ('radicand', a64, model); break
            if v != 'unsat':
                res.status = 'inconclusive'; res.notes.append('solver answered %s' % v); return res
            # later stages see the magnitude m = r - b (small on small inputs), not r: re-parametrise r64 = b + m, r32 = b + m + delta
            dlt = P.ATOMS.new('free', ('sqrt difference', tau_i))
            hi = solver.bound(a64)[1]
            m = P.ATOMS.new('free', ('magnitude', hi - bF))
            solver.set_box(m, 0, hi - bF)
            mapping64[a64] = Poly.const(bF) + Poly.var(m)
            mapping[a32] = Poly.const(bF) + Poly.var(m) + Poly.var(dlt)
        if bad is None:
            for e, (p32, p64) in enumerate(zip(Z32, Z64)):
                d = p32.subst(mapping) - p64.subst(mapping64)
                v, model = solver.decide(d, tau_r * 4, label='output %d' % e, grid_bits=64)
                if v == 'sat':
                    bad = ('output', e, model); break
                if v != 'unsat':
                    res.status = 'inconclusive'; res.notes.append('solver answered %s' % v); return res
        if bad is not None:
            # replay on the real layers in their own precisions, at the model's input and at structured small inputs
            rng = np.random.default_rng(3)
            cands = [core.model_array(bad[2], ids), np.zeros((1, 1, H, W)), rng.uniform(-s_, s_, size=(1, 1, H, W)), np.full((1, 1, H, W), float(s_))]
            worst = 0.0; wx = None
            l32r = _build_scat(symtorch.real(), cfg, 'float32'); l64r = _build_scat(symtorch.real(), cfg, 'float64')
            for xc in cands:
                z32 = l32r(rt.tensor(xc, dtype=rt.float32)).detach().double().numpy(); z64 = l64r(rt.tensor(xc, dtype=rt.float64)).detach().numpy()
                bound = 64 * eps32 * (gain * float(np.abs(xc).max()) + float(b))
                r = float(np.abs(z32 - z64).max()) / bound
                if r > worst:
                    worst, wx = r, xc
            res.status = 'violation'
            res.violations.append(dict(what='float32 scattering output deviates from float64 by %.3g x the bound 64*eps32*(gain*max|x| + magbias) (%s %s, input scale %g)'
                                       % (worst, bad[0], bad[1], s_), facts=facts, replay=dict(kind='quant_scat', x=(wx if wx is not None else cands[0]).tolist()), reproduced=worst > 1.0))
            res.stats = stt
            return res
    res.stats = stt
    res.validated = 0.0
    return res


def _views(tt, view, t):
    """(non-contiguous view of a wider tensor whose values are those of t, contiguous copy)"""
    if view == 'step2':
        z = tt.zeros(*(tuple(t.shape[:-1]) + (2 * t.shape[-1],)), dtype=t.dtype)
        z[..., ::2] = t
        return z[..., ::2]
    if view == 'transposed':
        return t.transpose(-1, -2).contiguous().transpose(-1, -2)
    if view == 'expand':
        # one channel broadcast to C channels (stride 0): the values are those of t[:, :1] repeated
        return t[:, :1].expand(-1, t.shape[1], *([-1] * (t.dim() - 2)))
    if view == 'chanslice':
        z = tt.cat([t, t * 0, t], dim=1)
        return z[:, :t.shape[1]] if t.shape[1] > 0 else t
    if view == 'chlast':
        # channels_last / NHWC-permuted storage viewed as NCHW (for 3-d inputs: (batch, time, features).transpose(1, 2))
        if t.dim() == 4:
            return t.permute(0, 2, 3, 1).contiguous().permute(0, 3, 1, 2)
        if t.dim() == 3:
            return t.transpose(1, 2).contiguous().transpose(1, 2)
        return t
    if view == 'flipbatch':
        return tt.cat([t[:1] * 0, t], dim=0)[1:]        # batch-offset slice of a larger tensor
    raise KeyError(view)


def _view_case(cfg):
    view = cfg['view']
    if cfg['kind'] == 'scat1':
        specs = [('x', (cfg['B'], cfg['C'], cfg['H'], cfg['W']))]

        def mk(pw):
            return pw.ScatLayer(biort=cfg['biort'], magbias=cfg['magbias'], combine_colour=cfg['colour'])

        def a1(pw, ts):
            return [('out0', mk(pw)(_views(C07._tt(pw), view, ts[0])))]

        def b1(pw, ts):
            t = _views(C07._tt(pw), view, ts[0]) if view == 'expand' else ts[0]
            return [('out0', mk(pw)(t.contiguous().clone()))]
        return specs, a1, b1
    specs = C07._slice_specs(cfg, cfg['B'], cfg['C'])

    def a(pw, ts):
        tt = C07._tt(pw)
        m = C07._module(pw, cfg)
        vs = [_views(tt, view, t) if t.dim() >= 3 else t for t in ts]
        return [('out%d' % i, o) for i, o in enumerate(_apply(m, cfg, vs))]

    def b(pw, ts):
        m = C07._module(pw, cfg)
        ts = [(_views(C07._tt(pw), view, t) if t.dim() >= 3 else t) for t in ts] if view == 'expand' else ts
        return [('out%d' % i, o) for i, o in enumerate(_apply(m, cfg, [t.contiguous().clone() for t in ts]))]
    return specs, a, b


def _run_finite_scat(res, cfg):
    """no division in the forward pass of a scattering layer can meet a zero divisor on |x| <= 1: every reciprocal atom created by the symbolic run has an
    argument whose interval enclosure over the input box excludes 0 (decided by interval reasoning over the atom definitions), or an exact witness input (the
    all-zero image, an image that is zero outside one pixel) makes it 0 - replayed on real torch in float32 and float64, where the output must then be non-finite."""
    rt = symtorch.real_torch()
    H, W, C = cfg['H'], cfg['W'], cfg.get('C', 1)
    facts = dict(check='finite', kind=cfg['kind'], magbias=cfg['magbias'])
    stt = smt.Stats()
    with symtorch.symbolic():
        st = symtorch.shim()
        x, ids = core.symin((1, C, H, W), dtype=st.float64)
        n0 = len(P.ATOMS)
        so = core.outcome(lambda: _scat_layer_c(symtorch.sym(), cfg)(x))
        n1 = len(P.ATOMS)
    res.funcs = sorted(set(res.funcs) | T.STATE.funcs_entered)
    if so[0] == 'unsupported':
        res.status = 'inconclusive'; res.notes.append('symbolic engine: ' + so[1]); res.stats = stt; return res
    if so[0] != 'ok':
        res.status = 'skipped'; res.notes.append('layer raises: %s' % (so[:2],)); res.stats = stt; return res
    solver = smt.Solver(stats=stt)
    for a in ids.reshape(-1):
        solver.var(int(a))
    memo = {}
    points = [np.zeros((1, C, H, W))]
    e = np.zeros((1, C, H, W)); e[0, 0, 0, 0] = 1.0; points.append(e)
    for a in range(n0, n1):
        if P.ATOMS.kind[a] != 'inv':
            continue
        arg = P.ATOMS.info[a]
        stt.queries += 1
        iv = solver._ival(arg, memo)
        if iv is not None and (iv[0] > 0 or iv[1] < 0):
            stt.unsat += 1
            continue
        wit = None
        for pt in points:
            env = P.AtomEnv()
            for i, v in zip(ids.reshape(-1), pt.reshape(-1)):
                env[int(i)] = float(v)
            try:
                v0 = arg.evalf(env)
            except Exception:
                v0 = float('nan')
            if v0 == 0 or v0 != v0:
                wit = pt; break
        if wit is None:
            stt.unknown += 1
            res.status = 'inconclusive'; res.notes.append('a divisor could not be bounded away from 0 and no witness was found'); continue
        stt.sat += 1
        bad = []
        for dt in (rt.float32, rt.float64):
            layer = _scat_layer_c(symtorch.real(), cfg)
            layer = layer.float() if dt is rt.float32 else layer.double()
            ro = core.outcome(lambda: layer(rt.tensor(wit, dtype=dt)))
            if ro[0] == 'ok' and not bool(rt.isfinite(ro[1]).all()):
                bad.append(str(dt))
        res.violations.append(dict(what='a division in the forward pass has a zero divisor at an input of the box (non-finite output on real torch in: %s)' % (bad or 'none'),
                                   facts=facts, replay=dict(kind='finite'), reproduced=bool(bad)))
        break
    res.stats = stt
    if res.violations:
        res.status = 'violation'
    return res


def _scat_layer_c(pw, cfg):
    kw = dict(biort=cfg['biort'], magbias=cfg['magbias'], combine_colour=bool(cfg.get('colour')))
    if cfg['kind'] == 'scat2':
        kw['qshift'] = cfg['qshift']
        return pw.ScatLayerj2(**kw)
    return pw.ScatLayer(**kw)


def run_config(cfg):
    res = core.Result(cfg)
    core.begin(default64=True)
    if cfg['check'] == 'dtype':
        core.begin(default64=False)
        return _run_dtype(res, cfg)
    if cfg['check'] == 'quant_scat':
        return _run_quant_scat(res, cfg)
    if cfg['check'] == 'finite_scat':
        return _run_finite_scat(res, cfg)
    if cfg['check'] == 'quant':
        return _run_quant(res, cfg)
    specs, a, b = _view_case(cfg)
    lincheck.check_same(res, cfg, dict(check='view', kind=cfg['kind'], view=cfg['view']), specs, a, b, what='strided input (%s) vs contiguous copy' % cfg['view'], allow_both_raise=True)
    return res


def replay(payload):
    cfg = payload['config']; rp = payload['replay']
    core.begin()
    if cfg['check'] == 'view':
        specs, a, b = _view_case(cfg)
        return lincheck.replay_same(payload, specs, a, b)
    r = run_config(cfg)
    return dict(reproduced=r.status == 'violation', detail=[v['what'] for v in r.violations])
