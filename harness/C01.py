"""C01 — DWT analysis equals PyWavelets on every input (1-D and 2-D)."""
import time
import numpy as np
import pywt
from fractions import Fraction
import symtorch
from symtorch import poly as P, tensor as T
from vlib import core, oracles, smt, lincheck
from harness import dwtlib as D

QUICK_WAVES = ['haar', 'db2', 'db3', 'db4', 'db8', 'sym4', 'coif1', 'bior1.3', 'bior2.4', 'bior3.1', 'rbio1.3', 'dmey']
QUICK_WAVES_2D = ['haar', 'db2', 'db3', 'bior2.4']
SHAPES_2D = [(2, 2), (3, 5), (4, 4), (5, 7), (6, 8), (8, 8), (9, 12), (12, 12)]

META = {
    'functions': ['pytorch_wavelets.DWT1DForward.forward', 'pytorch_wavelets.DWTForward.forward',
                  'pytorch_wavelets.dwt.lowlevel.AFB1D.forward', 'pytorch_wavelets.dwt.lowlevel.AFB2D.forward',
                  'pytorch_wavelets.dwt.lowlevel.afb1d', 'pytorch_wavelets.dwt.lowlevel.mypad', 'pytorch_wavelets.dwt.lowlevel.roll',
                  'pytorch_wavelets.utils.reflect', 'pytorch_wavelets.dwt.lowlevel.prep_filt_afb1d', 'pytorch_wavelets.dwt.lowlevel.prep_filt_afb2d'],
    'explanation': 'C01 (plus an integer lemma, unbounded in x: the index helper utils.reflect, cut out of the source and run on a symbolic integer, equals the half-sample symmetric index for every integer x and every length l <= 64). For each configuration the forward DWT is run once on a tensor of input atoms; each output '
                   'coefficient minus the PyWavelets basis-response row is a linear form d_k; query: exists x in [-1,1]^n with |d_k(x)| > tau.',
    'bounds': {'added_families': ['user-supplied banks custom:rot2 (2-tap, not Haar), custom:asym4 (4 taps, no symmetry): 1-D N in {5,8,12}, 2-D 5x6, 8x6 (C=2)', 'per-axis wavelet pairs db2|db3, bior1.3|db2, haar|db2 on 12x13 / 13x12', 'calling contexts nograd / reqgrad / transposed / chlast on db2 and db2|db3 configurations', 'filter arrays zeroed by the caller after construction (dwtlib.scrub)'],
               
        'quick': {'1d': {'wavelets': QUICK_WAVES, 'modes': D.MODES, 'J': [1, 2, 3], 'N': '2..L+3, 2L, 2L+1 (cap 40), seed-rotated half',
                         'batch': '(1,1); (2,3) on a slice'},
                  '2d': {'wavelets': QUICK_WAVES_2D, 'modes': D.MODES, 'J': [1, 2], 'shapes': SHAPES_2D},
                  'tau': '1e-9 * oracle gain', 'input box': '[-1,1]^n (w.l.o.g. for linear maps)'},
        'thorough': {'1d': {'wavelets': 'all 106 pywt discrete wavelets', 'modes': D.MODES, 'J': [1, 2, 3],
                            'N': '2..12, L-2..L+3, 2L-1..2L+2 (cap 80)'},
                     '2d': {'wavelets': 'one per (family, L<=12)', 'modes': D.MODES, 'J': [1, 2, 3], 'shapes': '{2..10}^2 + {12,13,16}^2'}},
    },
    'outside': 'sizes, J and batch shapes beyond the lists; floating-point rounding inside ATen kernels; CUDA',
    'assumptions': ['real-arithmetic semantics with filter taps equal to the stored doubles',
                    'PyWavelets wavedec/wavedec2 is affine in its input (checked on random and zero vectors per configuration)',
                    'float64 default dtype at module construction'],
}


def _n_list(L, cap):
    s = set(range(2, L + 4)) | {2 * L, 2 * L + 1}
    return sorted(n for n in s if 2 <= n <= cap)


def configs(tier, seed):
    out = [dict(kind='lemma_reflect', lengths=list(range(1, 33))), dict(kind='lemma_reflect', lengths=list(range(33, 65)))]
    if tier == 'quick':
        for w in QUICK_WAVES:
            L = D.filt_len(w)
            ns = _n_list(L, 40)
            for mode in D.MODES:
                for J in (1, 2, 3):
                    for i, n in enumerate(ns):
                        if (i + J + seed) % 2 == 0 or n in (2, 3, L - 1, L, L + 1):
                            out.append(dict(dim=1, wave=w, mode=mode, J=J, N=n, B=1, C=1))
        for w in ['db2', 'bior2.4']:
            for mode in D.MODES:
                out.append(dict(dim=1, wave=w, mode=mode, J=2, N=11, B=2, C=3))
        for w in QUICK_WAVES_2D:
            for mode in D.MODES:
                for J in (1, 2):
                    for (h, wd) in SHAPES_2D:
                        out.append(dict(dim=2, wave=w, mode=mode, J=J, H=h, W=wd, B=1, C=1))
        _custom(out)
        out.append(dict(dim=2, wave='db2', mode='symmetric', J=2, H=5, W=6, B=2, C=3))
        out.append(dict(dim=2, wave='db2', mode='periodization', J=2, H=6, W=8, B=2, C=2))
    else:
        for w in pywt.wavelist(kind='discrete'):
            L = D.filt_len(w)
            ns = sorted(n for n in (set(range(2, 13)) | set(range(L - 2, L + 4)) | set(range(2 * L - 1, 2 * L + 3))) if 2 <= n <= 80)
            for mode in D.MODES:
                for J in (1, 2, 3):
                    for n in ns:
                        out.append(dict(dim=1, wave=w, mode=mode, J=J, N=n, B=1, C=1))
        seen = set(); waves2 = []
        for w in pywt.wavelist(kind='discrete'):
            wv = pywt.Wavelet(w)
            key = (wv.family_name, wv.dec_len)
            if wv.dec_len <= 12 and key not in seen:
                seen.add(key); waves2.append(w)
        shapes = [(h, w) for h in range(2, 11) for w in range(2, 11)] + [(a, b) for a in (12, 13, 16) for b in (12, 13, 16)]
        for w in waves2:
            for mode in D.MODES:
                for J in (1, 2, 3):
                    for k, (h, wd) in enumerate(shapes):
                        if J < 3 or (h <= 10 and wd <= 10 and (h + wd + seed) % 3 == 0) or (h, wd) in ((12, 13), (16, 16)):
                            if (k + J + len(w) + seed) % 2 == 0 or h != wd:
                                out.append(dict(dim=2, wave=w, mode=mode, J=J, H=h, W=wd, B=1, C=1))
        _custom(out)
        for w in ['db3', 'bior3.1', 'sym4']:
            for mode in D.MODES:
                out.append(dict(dim=1, wave=w, mode=mode, J=2, N=13, B=2, C=3))
                out.append(dict(dim=2, wave=w, mode=mode, J=2, H=7, W=6, B=2, C=3))
    return out


def _custom(out):
    # user-supplied filter banks handed over as tuples of arrays (a 2-tap bank that is not Haar, a 4-tap bank without any symmetry)
    for w in D.CUSTOM:
        for mode in D.MODES:
            if mode == 'periodization' and D.filt_len(w) % 2:
                continue
            for J in (1, 2):
                for n in (5, 8, 12):
                    out.append(dict(dim=1, wave=w, mode=mode, J=J, N=n, B=1, C=1))
            out.append(dict(dim=2, wave=w, mode=mode, J=1, H=5, W=6, B=1, C=1))
            out.append(dict(dim=2, wave=w, mode=mode, J=2, H=8, W=6, B=1, C=2))
    # distinct column / row wavelets (4-tuples of filters)
    for w in ('pair:db2|db3', 'pair:bior1.3|db2', 'pair:haar|db2'):
        for mode in D.MODES:
            out.append(dict(dim=2, wave=w, mode=mode, J=1, H=12, W=13, B=1, C=1))
            out.append(dict(dim=2, wave=w, mode=mode, J=2, H=13, W=12, B=1, C=2))
    # the same transform called under torch.no_grad(), on inputs that require grad, on transposed / channels-last storage
    for ctx in D.CTXS:
        for mode in ('zero', 'symmetric', 'periodization'):
            out.append(dict(dim=2, wave='db2', mode=mode, J=2, H=5, W=6, B=2, C=2, ctx=ctx))
            out.append(dict(dim=2, wave='pair:db2|db3', mode=mode, J=1, H=12, W=12, B=1, C=1, ctx=ctx))
            out.append(dict(dim=1, wave='db2', mode=mode, J=2, N=9, B=2, C=2, ctx=ctx))


def _facts(cfg):
    L = D.filt_len(cfg['wave'])
    if cfg['dim'] == 1:
        ps = D.per_short(cfg['N'], L, cfg['J'])
        rs = D.reflect_short_any(cfg['N'], L, cfg['J'])
    else:
        ps = D.per_short(cfg['H'], L, cfg['J']) or D.per_short(cfg['W'], L, cfg['J'])
        rs = D.reflect_short_any(cfg['H'], L, cfg['J']) or D.reflect_short_any(cfg['W'], L, cfg['J'])
    return dict(transform='dwt%dd.forward' % cfg['dim'], mode=cfg['mode'], wave=cfg['wave'], J=cfg['J'],
                per_short=bool(cfg['mode'] == 'periodization' and ps), shorter_than_filter=bool(rs))


def _shape(cfg):
    return (cfg['B'], cfg['C'], cfg['N']) if cfg['dim'] == 1 else (cfg['B'], cfg['C'], cfg['H'], cfg['W'])


def _module(pw, cfg):
    if cfg['dim'] == 1:
        return pw.DWT1DForward(J=cfg['J'], wave=D.lib_wave(cfg['wave'], False), mode=cfg['mode'])
    return pw.DWTForward(J=cfg['J'], wave=D.lib_wave(cfg['wave'], False), mode=cfg['mode'])


def case(cfg):
    in_specs = [('x', _shape(cfg))]

    def impl(pw, ts):
        yl, yh = D.call_ctx(pw, cfg, lambda a: _module(pw, cfg)(a[0]), ts)
        return [('yl', yl)] + [('yh%d' % (j + 1), h) for j, h in enumerate(yh)]

    def ref(arrs):
        x = arrs[0]
        if cfg['dim'] == 1:
            c = pywt.wavedec(x, D.W(cfg['wave']), mode=cfg['mode'], level=cfg['J'], axis=-1)
            return [c[0]] + [b for b in c[1:][::-1]]
        c = pywt.wavedec2(x, D.W(cfg['wave']), mode=cfg['mode'], level=cfg['J'], axes=(-2, -1))
        return [c[0]] + [np.stack(b, axis=-3) for b in c[1:][::-1]]
    return in_specs, impl, ref


def _run_lemma(res, cfg):
    """reflect(x, -0.5, l-0.5) == half-sample symmetric index, for EVERY integer x, per length l (QF_LIRA)"""
    from vlib import lemma
    import z3
    st = smt.Stats()
    t0 = time.time()
    out = lemma.check_reflect(symtorch.REPO, cfg['lengths'])
    st.solver_s = time.time() - t0
    res.funcs = ['pytorch_wavelets.utils.reflect']
    res.nontrivial = True
    # vacuity twin: the whole-sample symmetric index must be refuted
    x = z3.Int('x'); l = 5
    lemma._Np.side = []
    r = lemma.reflect_term(symtorch.REPO, z3.ToReal(x), '-1/2', '%d/2' % (2 * l - 1))
    y = x % (2 * l - 2)
    tw = z3.Solver(); [tw.add(c) for c in lemma._Np.side]; tw.add(r != z3.ToReal(z3.If(y < l, y, 2 * l - 2 - y)))
    if str(tw.check()) != 'sat':
        res.status = 'error'; res.trace = 'reachability twin of the reflect lemma was not refuted'; return res
    utils = symtorch.real('pytorch_wavelets.utils')
    for (ln, v, cx) in out:
        st.queries += 1
        if v == 'unsat':
            st.unsat += 1
        elif v == 'sat':
            st.sat += 1
            got = int(utils.reflect(np.array([cx], dtype='int32'), -0.5, ln - 0.5)[0])
            yy = cx % (2 * ln); exp = yy if yy < ln else 2 * ln - 1 - yy
            res.violations.append(dict(what='reflect(%d, -0.5, %d-0.5) = %d, half-sample symmetric index is %d' % (cx, ln, got, exp), facts=dict(kind='lemma_reflect', l=ln),
                                       replay=dict(kind='lemma', x=cx, l=ln), reproduced=got != exp))
        else:
            st.unknown += 1
            res.status = 'inconclusive'; res.notes.append('reflect lemma l=%d: %s' % (ln, v))
    res.stats = st
    if res.violations:
        res.status = 'violation'
    return res


def run_config(cfg):
    res = core.Result(cfg)
    core.begin()
    if cfg.get('kind') == 'lemma_reflect':
        return _run_lemma(res, cfg)
    facts = _facts(cfg)
    in_specs, impl, ref = case(cfg)
    # reflect mode may raise when the signal is shorter than the filter; it never returns different numbers
    lincheck.check_linear(res, cfg, facts, in_specs, impl, ref, what='forward DWT',
                          allowed_raise=lambda so: cfg['mode'] == 'reflect' and facts['shorter_than_filter'])
    return res


def replay(payload):
    core.begin()
    if payload['config'].get('kind') == 'lemma_reflect':
        rp = payload['replay']
        got = int(symtorch.real('pytorch_wavelets.utils').reflect(np.array([rp['x']], dtype='int32'), -0.5, rp['l'] - 0.5)[0])
        yy = rp['x'] % (2 * rp['l']); exp = yy if yy < rp['l'] else 2 * rp['l'] - 1 - yy
        return dict(reproduced=got != exp, detail=dict(got=got, expected=exp))
    in_specs, impl, ref = case(payload['config'])
    return lincheck.replay_generic(payload, in_specs, impl, ref)
