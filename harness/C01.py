"""C01 — DWT analysis equals PyWavelets on every input (1-D and 2-D)."""
import time
import numpy as np
import pywt
from fractions import Fraction
import symtorch
from symtorch import poly as P, tensor as T
from vlib import core, oracles, smt
from harness import dwtlib as D

QUICK_WAVES = ['haar', 'db2', 'db3', 'db4', 'db8', 'sym4', 'coif1', 'bior1.3', 'bior2.4', 'bior3.1', 'rbio1.3', 'dmey']
QUICK_WAVES_2D = ['haar', 'db2', 'db3', 'bior2.4']
SHAPES_2D = [(2, 2), (3, 5), (4, 4), (5, 7), (6, 8), (8, 8), (9, 12), (12, 12)]

META = {
    'functions': ['pytorch_wavelets.DWT1DForward.forward', 'pytorch_wavelets.DWTForward.forward',
                  'pytorch_wavelets.dwt.lowlevel.AFB1D.forward', 'pytorch_wavelets.dwt.lowlevel.AFB2D.forward',
                  'pytorch_wavelets.dwt.lowlevel.afb1d', 'pytorch_wavelets.dwt.lowlevel.mypad', 'pytorch_wavelets.dwt.lowlevel.roll',
                  'pytorch_wavelets.utils.reflect', 'pytorch_wavelets.dwt.lowlevel.prep_filt_afb1d', 'pytorch_wavelets.dwt.lowlevel.prep_filt_afb2d'],
    'explanation': 'C01: for each configuration the forward DWT is run once on a tensor of input atoms; each output '
                   'coefficient minus the PyWavelets basis-response row is a linear form d_k; query: exists x in [-1,1]^n with |d_k(x)| > tau.',
    'bounds': {
        'quick': {'1d': {'wavelets': QUICK_WAVES, 'modes': D.MODES, 'J': [1, 2, 3], 'N': '2..L+3, 2L, 2L+1 (cap 40), seed-rotated half',
                         'batch': '(1,1); (2,3) on a slice'},
                  '2d': {'wavelets': QUICK_WAVES_2D, 'modes': D.MODES, 'J': [1, 2], 'shapes': SHAPES_2D},
                  'tau': '1e-9 * oracle gain', 'input box': '[-1,1]^n (w.l.o.g. for linear maps)'},
        'thorough': {'1d': {'wavelets': 'all 106 pywt discrete wavelets', 'modes': D.MODES, 'J': [1, 2, 3],
                            'N': '2..12, L-2..L+3, 2L-1..2L+2 (cap 80)'},
                     '2d': {'wavelets': 'one per (family, L<=12)', 'modes': D.MODES, 'J': [1, 2, 3], 'shapes': '{2..10}^2 + {12,13,16}^2'}},
    },
    'outside': 'sizes, J and batch shapes beyond the lists; floating-point rounding inside ATen kernels; CUDA',
    'assumptions': ['real-arithmetic semantics with filter taps equal to the stored doubles',
                    'PyWavelets wavedec/wavedec2 is affine in its input (checked on random and zero vectors per configuration)',
                    'float64 default dtype at module construction'],
}


def _n_list(L, cap):
    s = set(range(2, L + 4)) | {2 * L, 2 * L + 1}
    return sorted(n for n in s if 2 <= n <= cap)


def configs(tier, seed):
    out = []
    if tier == 'quick':
        for w in QUICK_WAVES:
            L = D.filt_len(w)
            ns = _n_list(L, 40)
            for mode in D.MODES:
                for J in (1, 2, 3):
                    for i, n in enumerate(ns):
                        if (i + J + seed) % 2 == 0 or n in (2, 3, L - 1, L, L + 1):
                            out.append(dict(dim=1, wave=w, mode=mode, J=J, N=n, B=1, C=1))
        for w in ['db2', 'bior2.4']:
            for mode in D.MODES:
                out.append(dict(dim=1, wave=w, mode=mode, J=2, N=11, B=2, C=3))
        for w in QUICK_WAVES_2D:
            for mode in D.MODES:
                for J in (1, 2):
                    for (h, wd) in SHAPES_2D:
                        out.append(dict(dim=2, wave=w, mode=mode, J=J, H=h, W=wd, B=1, C=1))
        out.append(dict(dim=2, wave='db2', mode='symmetric', J=2, H=5, W=6, B=2, C=3))
        out.append(dict(dim=2, wave='db2', mode='periodization', J=2, H=6, W=8, B=2, C=2))
    else:
        for w in pywt.wavelist(kind='discrete'):
            L = D.filt_len(w)
            ns = sorted(n for n in (set(range(2, 13)) | set(range(L - 2, L + 4)) | set(range(2 * L - 1, 2 * L + 3))) if 2 <= n <= 80)
            for mode in D.MODES:
                for J in (1, 2, 3):
                    for n in ns:
                        out.append(dict(dim=1, wave=w, mode=mode, J=J, N=n, B=1, C=1))
        seen = set(); waves2 = []
        for w in pywt.wavelist(kind='discrete'):
            wv = pywt.Wavelet(w)
            key = (wv.family_name, wv.dec_len)
            if wv.dec_len <= 12 and key not in seen:
                seen.add(key); waves2.append(w)
        shapes = [(h, w) for h in range(2, 11) for w in range(2, 11)] + [(a, b) for a in (12, 13, 16) for b in (12, 13, 16)]
        for w in waves2:
            for mode in D.MODES:
                for J in (1, 2, 3):
                    for k, (h, wd) in enumerate(shapes):
                        if J < 3 or (h <= 10 and wd <= 10 and (h + wd + seed) % 3 == 0) or (h, wd) in ((12, 13), (16, 16)):
                            if (k + J + len(w) + seed) % 2 == 0 or h != wd:
                                out.append(dict(dim=2, wave=w, mode=mode, J=J, H=h, W=wd, B=1, C=1))
        for w in ['db3', 'bior3.1', 'sym4']:
            for mode in D.MODES:
                out.append(dict(dim=1, wave=w, mode=mode, J=2, N=13, B=2, C=3))
                out.append(dict(dim=2, wave=w, mode=mode, J=2, H=7, W=6, B=2, C=3))
    return out


def _facts(cfg):
    L = D.filt_len(cfg['wave'])
    if cfg['dim'] == 1:
        ps = D.per_short(cfg['N'], L, cfg['J'])
        rs = D.reflect_short_any(cfg['N'], L, cfg['J'])
    else:
        ps = D.per_short(cfg['H'], L, cfg['J']) or D.per_short(cfg['W'], L, cfg['J'])
        rs = D.reflect_short_any(cfg['H'], L, cfg['J']) or D.reflect_short_any(cfg['W'], L, cfg['J'])
    return dict(transform='dwt%dd.forward' % cfg['dim'], mode=cfg['mode'], wave=cfg['wave'], J=cfg['J'],
                per_short=bool(cfg['mode'] == 'periodization' and ps), shorter_than_filter=bool(rs))


def _shape(cfg):
    return (cfg['B'], cfg['C'], cfg['N']) if cfg['dim'] == 1 else (cfg['B'], cfg['C'], cfg['H'], cfg['W'])


def _oracle(cfg):
    """-> per-slice rows: (yl_rows, [yh_rows]) as float arrays with last axis = slice input index"""
    if cfg['dim'] == 1:
        return oracles.wavedec_rows(cfg['wave'], cfg['mode'], cfg['N'], cfg['J'])
    return oracles.wavedec2_rows(cfg['wave'], cfg['mode'], cfg['H'], cfg['W'], cfg['J'])


def _module(pw, cfg):
    if cfg['dim'] == 1:
        return pw.DWT1DForward(J=cfg['J'], wave=cfg['wave'], mode=cfg['mode'])
    return pw.DWTForward(J=cfg['J'], wave=cfg['wave'], mode=cfg['mode'])


def _ref_rows_for(cfg, band_rows, ids):
    """band_rows: oracle array (band shape..., n_slice) -> list of Polys in the order of the impl tensor (B,C,band...)"""
    B, C = cfg['B'], cfg['C']
    per = band_rows.reshape(-1, band_rows.shape[-1])
    rows = []
    for b in range(B):
        for c in range(C):
            at = ids[b, c].reshape(-1)
            rows.extend(core.ref_poly_rows(per, at))
    return rows


def _real_apply(cfg, x):
    rpw = symtorch.real()
    rt = symtorch.real_torch()
    m = _module(rpw, cfg)
    yl, yh = m(rt.tensor(x, dtype=rt.float64))
    return yl, yh


def run_config(cfg):
    res = core.Result(cfg)
    core.begin()
    rng = np.random.default_rng(12345)
    facts = _facts(cfg)
    shape = _shape(cfg)
    L = D.filt_len(cfg['wave'])
    # ---- oracle -------------------------------------------------------------------------
    try:
        o_yl, o_yh = _oracle(cfg)
    except Exception as e:  # oracle refuses the configuration
        res.status = 'skipped'; res.notes.append('oracle raised %s' % type(e).__name__)
        return res
    sl_shape = shape[2:]
    flat_rows = np.concatenate([o_yl.reshape(-1, o_yl.shape[-1])] + [b.reshape(-1, b.shape[-1]) for b in o_yh], axis=0)

    def _ap(x):
        if cfg['dim'] == 1:
            a, hs = oracles.wavedec_apply(cfg['wave'], cfg['mode'], x, cfg['J'])
        else:
            a, hs = oracles.wavedec2_apply(cfg['wave'], cfg['mode'], x, cfg['J'])
        return np.concatenate([a.reshape(-1)] + [h.reshape(-1) for h in hs])
    ok, dev = oracles.check_affine(_ap, flat_rows, sl_shape, rng)
    if not ok:
        res.status = 'error'; res.trace = 'oracle is not affine (dev %g)' % dev
        return res
    scale = D.gain([o_yl] + o_yh)
    tau = Fraction(1, 10 ** 9) * Fraction(scale)
    # ---- symbolic run -------------------------------------------------------------------
    t0 = time.time()
    with symtorch.symbolic():
        x, ids = core.symin(shape)
        so = core.outcome(lambda: _module(symtorch.sym(), cfg)(x))
    res.symexec_s = time.time() - t0
    res.funcs = sorted(T.STATE.funcs_entered)
    # ---- real run on the basis -----------------------------------------------------------
    E, n = D.basis_batch(shape)
    ro = core.outcome(lambda: _real_apply(cfg, E))
    if so[0] == 'unsupported':
        res.status = 'inconclusive'; res.notes.append('symbolic engine: ' + so[1])
        return res
    if so[0] != ro[0] or (so[0] == 'raise' and so[1] != ro[1]):
        res.status = 'error'; res.trace = 'symbolic outcome %r differs from real torch outcome %r' % (so[:2], ro[:2])
        return res
    if so[0] == 'raise':
        if cfg['mode'] == 'reflect' and facts['shorter_than_filter']:
            res.notes.append('legal raise in reflect mode (signal shorter than filter): ' + so[1])
            res.nontrivial = True
            return res
        res.status = 'violation'
        res.violations.append(dict(what='forward raises %s where PyWavelets returns coefficients' % so[1], facts=facts,
                                   replay=dict(kind='raise'), reproduced=True))
        return res
    yl, yh = so[1]
    ryl, ryh = ro[1]
    # ---- structure ----------------------------------------------------------------------
    exp_shapes = [tuple(shape[:2]) + o_yl.shape[:-1]] + [tuple(shape[:2]) + b.shape[:-1] for b in o_yh]
    got_shapes = [tuple(yl.shape)] + [tuple(h.shape) for h in yh]
    if got_shapes != exp_shapes:
        res.status = 'violation'
        real_shapes = [tuple(ryl.shape)] + [tuple(h.shape) for h in ryh]
        res.violations.append(dict(what='band shapes %s differ from PyWavelets %s' % (got_shapes, exp_shapes), facts=facts,
                                   replay=dict(kind='shape'), reproduced=real_shapes == got_shapes))
        return res
    # ---- engine validation: whole operator vs real torch ----------------------------------
    dev = 0.0
    for s_t, r_t in zip([yl] + list(yh), [ryl] + list(ryh)):
        M, c0 = core.lin_table(s_t.a, ids)
        Rm = D.unbatch(r_t, n, shape[0])
        dev = max(dev, float(np.abs(M - Rm).max()) if M.size else 0.0, float(np.abs(c0).max()) if c0.size else 0.0)
    res.validated = dev
    if dev > 1e-10 * scale:
        res.status = 'error'; res.trace = 'symbolic operator deviates from real torch by %g' % dev
        return res
    # ---- queries ------------------------------------------------------------------------
    st = smt.Stats()
    solver = smt.Solver(stats=st)
    names = ['yl'] + ['yh%d' % (j + 1) for j in range(len(yh))]
    impl = [yl.a] + [h.a for h in yh]
    refs = [_ref_rows_for(cfg, o_yl, ids)] + [_ref_rows_for(cfg, b, ids) for b in o_yh]
    sats = D.decide_bands(res, solver, impl, refs, tau, names)
    # canary: a perturbed oracle must be refuted
    if impl[0].size:
        d = impl[0].reshape(-1)[0] - refs[0][0] + P.Poly.var(int(ids.reshape(-1)[0])) * Fraction(1, 10 ** 6)
        cst = smt.Stats(); cs = smt.Solver(stats=cst); cs.keep_sample = False
        v, m = cs.decide(d, tau)
        if v != 'sat' or abs(d.evalq({a: m.get(a, Fraction(0)) for a in d.atoms()})) <= tau / 2:
            res.status = 'error'; res.trace = 'canary query was not refuted (%s)' % v
            return res
    res.stats = st
    for name, k, model in sats:
        xv = core.model_array(model, ids)
        rep = _replay_values(cfg, xv, name, k, float(tau))
        res.violations.append(dict(what='coefficient %s[%d] differs from PyWavelets by %.3g (tau %.3g)' % (name, k, rep['diff'], float(tau)),
                                   facts=facts, replay=dict(kind='values', x=xv.tolist(), band=name, k=int(k), tau=float(tau)),
                                   reproduced=rep['reproduced']))
    if res.violations:
        res.status = 'violation'
    return res


def _replay_values(cfg, xv, name, k, tau):
    rt = symtorch.real_torch()
    yl, yh = _real_apply(cfg, xv)
    got = [yl.detach().numpy()] + [h.detach().numpy() for h in yh]
    B, C = cfg['B'], cfg['C']
    exp = [[], *[[] for _ in yh]]
    refl, refh = None, None
    outs = []
    for b in range(B):
        for c in range(C):
            if cfg['dim'] == 1:
                a, hs = oracles.wavedec_apply(cfg['wave'], cfg['mode'], xv[b, c], cfg['J'])
            else:
                a, hs = oracles.wavedec2_apply(cfg['wave'], cfg['mode'], xv[b, c], cfg['J'])
            outs.append([a] + hs)
    names = ['yl'] + ['yh%d' % (j + 1) for j in range(len(yh))]
    bi = names.index(name)
    ref = np.stack([o[bi] for o in outs]).reshape(got[bi].shape) if got[bi].size == sum(o[bi].size for o in outs) else None
    if ref is None:
        return dict(reproduced=True, diff=float('inf'))
    diff = abs(float(got[bi].reshape(-1)[k]) - float(ref.reshape(-1)[k]))
    return dict(reproduced=diff > tau / 2, diff=diff)


def replay(payload):
    cfg = payload['config']; rp = payload['replay']
    core.begin()
    if rp['kind'] == 'values':
        r = _replay_values(cfg, np.array(rp['x']), rp['band'], rp['k'], rp['tau'])
        return dict(reproduced=r['reproduced'], detail=r)
    shape = _shape(cfg)
    ro = core.outcome(lambda: _real_apply(cfg, np.zeros(shape)))
    try:
        o_yl, o_yh = _oracle(cfg)
    except Exception:
        return dict(reproduced=False, detail='oracle raises')
    if rp['kind'] == 'raise':
        return dict(reproduced=ro[0] == 'raise', detail=ro[:2])
    exp = [tuple(shape[:2]) + o_yl.shape[:-1]] + [tuple(shape[:2]) + b.shape[:-1] for b in o_yh]
    if ro[0] != 'ok':
        return dict(reproduced=True, detail=ro[:2])
    got = [tuple(ro[1][0].shape)] + [tuple(h.shape) for h in ro[1][1]]
    return dict(reproduced=got != exp, detail=dict(got=got, expected=exp))
