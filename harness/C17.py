"""C17 — orthogonal wavelets with periodization give an orthogonal transform (inverse = transpose = back-propagation)."""
import time
import numpy as np
import pywt
from fractions import Fraction
import symtorch
from symtorch import poly as P, tensor as T, autograd as AG
from symtorch.poly import Poly
from vlib import core, smt
from harness import dwtlib as D

META = {
    'functions': ['pytorch_wavelets.DWT1DForward.forward', 'pytorch_wavelets.DWT1DInverse.forward', 'pytorch_wavelets.DWTForward.forward',
                  'pytorch_wavelets.DWTInverse.forward', 'pytorch_wavelets.dwt.lowlevel.AFB1D.forward', 'pytorch_wavelets.dwt.lowlevel.AFB1D.backward',
                  'pytorch_wavelets.dwt.lowlevel.AFB2D.forward', 'pytorch_wavelets.dwt.lowlevel.AFB2D.backward',
                  'pytorch_wavelets.dwt.lowlevel.SFB1D.forward', 'pytorch_wavelets.dwt.lowlevel.SFB2D.forward'],
    'explanation': 'C17: from ONE symbolic forward run the exact coefficient table A is read off. Queries (all for every input): (1) (A^T A y)_i - y_i within tau '
                   '[preservation of inner products and energy is the polarisation corollary <Ax,Ay> = x^T A^T A y, applied outside the solver]; A is checked to be '
                   'square, so A A^T = I follows; (2) the inverse module run on a free symbolic pyramid c equals A^T c; (3) back-propagating a symbolic cotangent g '
                   'through the forward module (the repository\'s own backward, driven by the autograd tape model) equals A^T g and equals inverse(g). '
                   'Thorough: direct quadratic energy query (QF_NRA) for n <= 8.',
    'bounds': {'added_families': ['per-axis orthogonal pairs db2|db3, haar|db2, sym4|db2 (J=1,2)'],
               'quick': {'wavelets': 'haar, db2..db6, db8, sym2..sym5, sym8, coif1, coif2 (1-D); haar, db2, db3, sym4 (2-D)', 'J': [1, 2, 3],
                         'N': 'm*2^J with N/2^(J-1) >= L, two sizes per (wavelet,J), cap 64', '2-D': 'sizes <= 16x16'},
               'thorough': {'wavelets': 'every pywt wavelet with .orthogonal and L <= 40 (1-D)', 'N': 'three sizes per (wavelet, J), cap 2L+2^J+8', '2-D': 'L<=8, sizes <= 16x16'}},
    'outside': 'sizes beyond the caps; wavelets with L > 40 in 1-D; float rounding in kernels',
    'assumptions': ['real-arithmetic semantics', 'tolerance 1e-9 (the stored taps are orthonormal only to ~1e-12 for some families)'],
}


def _sizes(L, J, cap):
    m0 = 2 ** J
    need = L * 2 ** (J - 1)
    n = ((need + m0 - 1) // m0) * m0
    out = [n, n + m0, n + 3 * m0]
    return [v for v in out if v <= cap]


def _pairs(out):
    # distinct orthogonal wavelets along columns and rows (filters handed over as 4-tuples)
    for w in ('pair:db2|db3', 'pair:haar|db2', 'pair:sym4|db2'):
        L = D.filt_len(w)
        out.append(dict(dim=2, wave=w, J=1, H=L + 2, W=L + 4))
        out.append(dict(dim=2, wave=w, J=2, H=2 * L, W=2 * L + 4))


def configs(tier, seed):
    out = []
    if tier == 'quick':
        w1 = ['haar', 'db2', 'db3', 'db4', 'db5', 'db6', 'db8', 'sym2', 'sym3', 'sym4', 'sym5', 'sym8', 'coif1', 'coif2']
        for w in w1:
            L = D.filt_len(w)
            for J in (1, 2, 3):
                for n in _sizes(L, J, 64)[:2]:
                    out.append(dict(dim=1, wave=w, J=J, N=n))
        for w in ['haar', 'db2', 'db3', 'sym4']:
            L = D.filt_len(w)
            for J in (1, 2):
                for s in _sizes(L, J, 16)[:1]:
                    out.append(dict(dim=2, wave=w, J=J, H=s, W=s))
                    if s + 2 ** J <= 16:
                        out.append(dict(dim=2, wave=w, J=J, H=s, W=s + 2 ** J))
        _pairs(out)
    else:
        for w in pywt.wavelist(kind='discrete'):
            wv = pywt.Wavelet(w)
            if not wv.orthogonal or wv.dec_len > 40:
                continue
            L = wv.dec_len
            for J in (1, 2, 3):
                for n in _sizes(L, J, 2 * L + 2 ** J + 8 if J < 3 else 4 * L + 16)[:3]:
                    if n <= 96:
                        out.append(dict(dim=1, wave=w, J=J, N=n))
            if L <= 8:
                for J in (1, 2):
                    for s in _sizes(L, J, 16):
                        out.append(dict(dim=2, wave=w, J=J, H=s, W=s))
                        if s + 2 ** J <= 16:
                            out.append(dict(dim=2, wave=w, J=J, H=s + 2 ** J, W=s))
        _pairs(out)
        out.append(dict(dim=1, wave='db2', J=1, N=8, energy=True))
        out.append(dict(dim=1, wave='haar', J=2, N=8, energy=True))
    return out


def _fwd(pw, cfg, x):
    c = dict(cfg, mode='periodization')
    yl, yh = D.make_module(pw, 'fwd1' if cfg['dim'] == 1 else 'fwd2', c)(x)
    return [yl] + list(yh)


def _inv(pw, cfg, parts):
    c = dict(cfg, mode='periodization')
    return D.make_module(pw, 'inv1' if cfg['dim'] == 1 else 'inv2', c)((parts[0], list(parts[1:])))


def run_config(cfg):
    res = core.Result(cfg)
    core.run_paths(res, lambda: _run_path(res, cfg))
    return res


def _run_path(res, cfg):
    rt = symtorch.real_torch()
    facts = dict(dim=cfg['dim'], wave=cfg['wave'], J=cfg['J'])
    shape = (1, 1, cfg['N']) if cfg['dim'] == 1 else (1, 1, cfg['H'], cfg['W'])
    n = int(np.prod(shape))
    t0 = time.time()
    with symtorch.symbolic():
        spw = symtorch.sym()
        x, ids = core.symin(shape, requires_grad=True)
        so = core.outcome(lambda: _fwd(spw, cfg, x))
        if so[0] == 'ok':
            outs = so[1]
            vals = [AG.resolve(o) for o in outs]
            cots = []; cot_ids = []
            for o in outs:
                g, gi = core.symin(tuple(o.shape), kind='cot', name='g')
                cots.append(g); cot_ids.append(gi)
            bo = core.outcome(lambda: AG.backprop(outs, cots))
            io = core.outcome(lambda: _inv(spw, cfg, cots))
    res.symexec_s = time.time() - t0
    res.funcs = sorted(T.STATE.funcs_entered)
    for o in (so,) + ((bo, io) if so[0] == 'ok' else ()):
        if o[0] == 'unsupported':
            res.status = 'inconclusive'; res.notes.append('symbolic engine: ' + o[1]); return res
    # real runs
    xr = rt.tensor(np.random.default_rng(5).uniform(-1, 1, size=shape), requires_grad=True)
    ro = core.outcome(lambda: _fwd(symtorch.real(), cfg, xr))
    if not D.same_outcome(res, so, ro):
        return res
    if so[0] == 'raise':
        res.status = 'violation'
        res.violations.append(dict(what='forward raises %s' % so[1], facts=facts, replay=dict(kind='raise'), reproduced=True)); return res
    m = sum(int(v.size) for v in vals)
    if m != n:
        res.status = 'violation'
        res.violations.append(dict(what='transform is not square: %d inputs, %d coefficients' % (n, m), facts=facts, replay=dict(kind='square'),
                                   reproduced=sum(int(o.numel()) for o in ro[1]) == m)); return res
    gflat_ids = np.concatenate([g.reshape(-1) for g in cot_ids])
    gv = [np.random.default_rng(6).uniform(-1, 1, size=tuple(o.shape)) for o in outs]
    rgrad = core.outcome(lambda: rt.autograd.grad(ro[1], xr, [rt.tensor(g) for g in gv], allow_unused=True)[0])
    rinv = core.outcome(lambda: _inv(symtorch.real(), cfg, [rt.tensor(g) for g in gv]))
    for s_, r_ in ((bo, rgrad), (io, rinv)):
        if not D.same_outcome(res, s_, r_):
            return res
    if bo[0] == 'raise' or io[0] == 'raise':
        bad = bo if bo[0] == 'raise' else io
        res.status = 'violation'
        res.violations.append(dict(what='%s raises %s' % ('backward' if bad is bo else 'inverse', bad[1]), facts=facts, replay=dict(kind='raise'), reproduced=True)); return res
    # ---- A from the symbolic forward -------------------------------------------------------
    rows = np.concatenate([v.reshape(-1) for v in vals])        # Polys over ids
    idl = [int(a) for a in ids.reshape(-1)]
    col = {a: j for j, a in enumerate(idl)}
    A = [[None] * 0 for _ in range(0)]
    Arows = []
    for p in rows:
        if not p.is_linear() or p.const_value():
            res.status = 'inconclusive'; res.notes.append('forward output is not a homogeneous linear form'); return res
        Arows.append({col[k[0]]: v for k, v in p.t.items()})
    # engine validation (forward operator, gradient and inverse at sample cotangent)
    E, nb = D.basis_batch(shape)
    rb = _fwd(symtorch.real(), cfg, rt.tensor(E))
    Rm = np.concatenate([D.unbatch(r, nb, 1) for r in rb], axis=0)
    Am = np.zeros((m, n))
    for k, r in enumerate(Arows):
        for j, v in r.items():
            Am[k, j] = float(v)
    dev = float(np.abs(Am - Rm).max())
    env = P.AtomEnv()
    for gi, g in zip(cot_ids, gv):
        for a, val in zip(gi.reshape(-1), g.reshape(-1)):
            env[int(a)] = float(val)
    pc = list(P.PATHS.taken)
    on_path = True
    if pc:
        for a, val in zip(ids.reshape(-1), xr.detach().numpy().reshape(-1)):
            env[int(a)] = float(val)
        on_path = core.path_env_ok(env)
        facts = dict(facts, path=[bool(d) for _, d in pc])
    acc = bo[1]
    grad_sym = [acc.get(a, P.ZERO) for a in idl]
    gs = np.array([p.evalf(env) for p in grad_sym])
    rg = rgrad[1]
    dev = max(dev, float(np.abs(gs - (rg.detach().numpy().reshape(-1) if rg is not None else 0)).max()))
    inv_sym = io[1]
    if tuple(inv_sym.shape) != tuple(rinv[1].shape):
        res.status = 'error'; res.trace = 'inverse shape differs between symbolic and real run'; return res
    iv = np.array([p.evalf(env) for p in inv_sym.a.reshape(-1)])
    dev = max(dev, float(np.abs(iv - rinv[1].detach().numpy().reshape(-1)).max()))
    if on_path:
        res.validated = dev if res.validated is None else max(res.validated, dev)
        if dev > 1e-9:
            res.status = 'error'; res.trace = 'symbolic run deviates from real torch by %g' % dev; return res
    else:
        res.notes.append('engine validation skipped on the data-dependent path %s (sample point is on another path)' % facts['path'])
    if tuple(inv_sym.shape) != tuple(shape):
        res.status = 'violation'
        res.violations.append(dict(what='inverse output shape %s != input shape %s' % (tuple(inv_sym.shape), shape), facts=facts, replay=dict(kind='invshape'), reproduced=True)); return res
    tau = Fraction(1, 10 ** 9)
    st = res.stats or smt.Stats(); solver = smt.Solver(stats=st)
    if pc:
        for a in list(ids.reshape(-1)) + list(gflat_ids):
            solver.var(int(a))
        solver.add_path(pc)
    # (1) A^T A y == y
    ypoly = [Poly.var(a) for a in idl]
    z = [P.lincomb((v, ypoly[j]) for j, v in r.items()) for r in Arows]          # A y
    AtAy = []
    colrows = [[] for _ in range(n)]
    for k, r in enumerate(Arows):
        for j, v in r.items():
            colrows[j].append((v, z[k]))
    AtAy = [P.lincomb(cr) for cr in colrows]
    s1 = D.decide_bands(res, solver, [np.array(AtAy, dtype=object)], [ypoly], tau, ['AtA'])
    # A^T g
    gpoly = [Poly.var(int(a)) for a in gflat_ids]
    Atg = [P.lincomb((v, gpoly[k]) for (v, k) in [(r[j], k) for k, r in enumerate(Arows) if j in r]) for j in range(n)]
    # (2) inverse(c) == A^T c
    s2 = D.decide_bands(res, solver, [inv_sym.a], [Atg], tau, ['inverse_vs_transpose'])
    # (3) backprop(g) == A^T g, and == inverse(g)
    s3 = D.decide_bands(res, solver, [np.array(grad_sym, dtype=object)], [Atg], tau, ['backward_vs_transpose'])
    s4 = D.decide_bands(res, solver, [np.array(grad_sym, dtype=object)], [list(inv_sym.a.reshape(-1))], tau, ['backward_vs_inverse'])
    if not D.canary_ok(res, AtAy[0] - ypoly[0], idl[0], tau):
        return res
    # thorough: direct energy query, quadratic
    if cfg.get('energy'):
        e = P.ZERO
        for zk in z:
            e = e + zk * zk
        for yp in ypoly:
            e = e - yp * yp
        v, model = solver.decide(e, Fraction(1, 10 ** 7), label='energy')
        if v == 'sat':
            s1.append(('energy', 0, model))
        elif v != 'unsat':
            res.status = 'inconclusive'; res.notes.append('energy query: %s' % v)
    res.stats = st
    for name, k, model in s1:
        yv = core.model_array(model, ids)
        rep = _replay_inner(cfg, yv, k if name == 'AtA' else None, float(tau))
        res.violations.append(dict(what='inner product not preserved: <A y, A e_%d> - y_%d = %.3g' % (k, k, rep['diff']) if name == 'AtA' else 'energy not preserved: %.3g' % rep['diff'],
                                   facts=facts, replay=dict(kind='inner', y=yv.tolist(), k=int(k) if name == 'AtA' else None, tau=float(tau)), reproduced=rep['reproduced']))
    for name, k, model in s2 + s3 + s4:
        if pc:
            nm = solver.nice_model(solver._last_query, [int(a) for a in gflat_ids]) if hasattr(solver, '_last_query') else None
            model = nm or model
        gvv = [core.model_array(model, gi) for gi in cot_ids]
        rep = _replay_g(cfg, gvv, name, k, float(tau), shape)
        res.violations.append(dict(what='%s: element %d differs by %.3g' % (name, k, rep['diff']), facts=facts,
                                   replay=dict(kind='g', g=[g.tolist() for g in gvv], which=name, k=int(k), tau=float(tau)), reproduced=rep['reproduced'], path_dependent=bool(pc)))
    if res.violations:
        res.status = 'violation'
    return res


def _replay_inner(cfg, yv, k, tau):
    rt = symtorch.real_torch()
    Ay = np.concatenate([o.detach().numpy().reshape(-1) for o in _fwd(symtorch.real(), cfg, rt.tensor(yv))])
    if k is None:
        diff = abs(float(Ay @ Ay) - float(yv.reshape(-1) @ yv.reshape(-1)))
        return dict(reproduced=diff > tau / 2, diff=diff)
    e = np.zeros(yv.size); e[k] = 1.0
    Ae = np.concatenate([o.detach().numpy().reshape(-1) for o in _fwd(symtorch.real(), cfg, rt.tensor(e.reshape(yv.shape)))])
    diff = abs(float(Ay @ Ae) - float(yv.reshape(-1)[k]))
    return dict(reproduced=diff > tau / 2, diff=diff)


def _replay_g(cfg, gv, which, k, tau, shape):
    rt = symtorch.real_torch()
    n = int(np.prod(shape))
    e = np.zeros(n); e[k] = 1.0
    Ae = [o.detach().numpy() for o in _fwd(symtorch.real(), cfg, rt.tensor(e.reshape(shape)))]
    Atg_k = sum(float((a * g).sum()) for a, g in zip(Ae, gv))
    xr = rt.zeros(*shape, requires_grad=True)
    outs = _fwd(symtorch.real(), cfg, xr)
    grad = rt.autograd.grad(outs, xr, [rt.tensor(g) for g in gv], allow_unused=True)[0]
    grad_k = float(grad.reshape(-1)[k]) if grad is not None else 0.0
    inv_k = float(_inv(symtorch.real(), cfg, [rt.tensor(g) for g in gv]).reshape(-1)[k])
    diff = {'inverse_vs_transpose': abs(inv_k - Atg_k), 'backward_vs_transpose': abs(grad_k - Atg_k), 'backward_vs_inverse': abs(grad_k - inv_k)}[which]
    return dict(reproduced=diff > tau / 2, diff=diff)


def replay(payload):
    cfg = payload['config']; rp = payload['replay']
    core.begin()
    shape = (1, 1, cfg['N']) if cfg['dim'] == 1 else (1, 1, cfg['H'], cfg['W'])
    if rp['kind'] == 'inner':
        r = _replay_inner(cfg, np.array(rp['y']), rp['k'], rp['tau'])
    elif rp['kind'] == 'g':
        r = _replay_g(cfg, [np.array(g) for g in rp['g']], rp['which'], rp['k'], rp['tau'], shape)
    else:
        return dict(reproduced=True, detail='structural')
    return dict(reproduced=r['reproduced'], detail=r)
