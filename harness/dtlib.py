"""Shared pieces of the DTCWT harnesses (C03 C04 C06 C11 C12): reference-package oracles."""
import logging
import warnings
import numpy as np
import dtcwt

logging.disable(logging.WARNING)
warnings.filterwarnings('ignore')

BIORTS = ['antonini', 'legall', 'near_sym_a', 'near_sym_b']
QSHIFTS = ['qshift_06', 'qshift_a', 'qshift_b', 'qshift_c', 'qshift_d']
ALL_PAIRS = [(b, q) for b in BIORTS for q in QSHIFTS]
QUICK_PAIRS = [('near_sym_a', 'qshift_a'), ('antonini', 'qshift_06'), ('legall', 'qshift_b'), ('near_sym_b', 'qshift_c'),
               ('near_sym_a', 'qshift_d'), ('near_sym_b', 'qshift_b')]
_T = {}


def xfm(biort, qshift):
    k = (biort, qshift)
    if k not in _T:
        _T[k] = dtcwt.Transform2d(biort=biort, qshift=qshift)
    return _T[k]


def ref_forward(biort, qshift, J, x, include_scale=False):
    """x: (n, C, H, W) -> yl (n,C,h,w), [yh_j (n,C,6,h,w,2)], [scales]"""
    t = xfm(biort, qshift)
    n, C = x.shape[:2]
    yl = None; yh = None; sc = None
    for b in range(n):
        for c in range(C):
            p = t.forward(x[b, c], nlevels=J, include_scale=include_scale)
            if yl is None:
                yl = np.zeros((n, C) + p.lowpass.shape)
                yh = [np.zeros((n, C, 6) + h.shape[:2] + (2,)) for h in p.highpasses]
                if include_scale:
                    sc = [np.zeros((n, C) + s.shape) for s in p.scales]
            yl[b, c] = p.lowpass
            for j, h in enumerate(p.highpasses):
                hh = np.moveaxis(h, -1, 0)
                yh[j][b, c, ..., 0] = hh.real
                yh[j][b, c, ..., 1] = hh.imag
            if include_scale:
                for j, s in enumerate(p.scales):
                    sc[j][b, c] = s
    return yl, yh, sc


def ref_inverse(biort, qshift, yl, yh):
    """yl (n,C,h,w), yh list of (n,C,6,h,w,2) -> (n,C,H,W)"""
    t = xfm(biort, qshift)
    n, C = yl.shape[:2]
    out = None
    for b in range(n):
        for c in range(C):
            hs = tuple(np.moveaxis(h[b, c, ..., 0] + 1j * h[b, c, ..., 1], 0, -1) for h in yh)
            r = t.inverse(dtcwt.Pyramid(yl[b, c], hs))
            if out is None:
                out = np.zeros((n, C) + r.shape)
            out[b, c] = r
    return out


def pyramid_shapes(biort, qshift, J, H, W):
    yl, yh, _ = ref_forward(biort, qshift, J, np.zeros((1, 1, H, W)))
    return yl.shape[2:], [h.shape[2:] for h in yh]
