"""Shared pieces of the scattering harnesses (C08, C09): reference forms composed from dtcwt.Transform2d."""
import numpy as np
from fractions import Fraction
import symtorch
from symtorch import poly as P, tensor as T
from symtorch.poly import Poly
from vlib import core, smt
from harness import dtlib as DT

QS_FOR = {'near_sym_b_bp': 'qshift_b_bp'}


def ref_rows(biort, qshift, J, H, W, seed=3):
    """basis responses of the reference forward transform for ONE (H,W) slice, probed with dense offsets.
    -> dict(yl=(h,w,n), re=[(6,h,w,n)], im=[...])"""
    rng = np.random.default_rng(seed)
    n = H * W
    u = rng.uniform(0.5, 1.5, size=(1, 1, H, W))
    E = np.eye(n).reshape(n, 1, H, W) + u
    yl, yh, _ = DT.ref_forward(biort, qshift, J, E)
    yl0, yh0, _ = DT.ref_forward(biort, qshift, J, u)
    out = dict(yl=np.moveaxis(yl - yl0, 0, -1)[0], re=[], im=[])
    for h, h0 in zip(yh, yh0):
        d = np.moveaxis(h - h0, 0, -1)[0]      # (6,h,w,2,n)
        out['re'].append(d[..., 0, :]); out['im'].append(d[..., 1, :])
    return out


def forms(rows, atoms):
    """float array (..., n) -> object array (...) of exact linear Polys over the given atoms"""
    at = [int(a) for a in np.asarray(atoms).reshape(-1)]
    flat = rows.reshape(-1, rows.shape[-1])
    out = np.empty(flat.shape[0], dtype=object)
    for r, row in enumerate(flat):
        t = {}
        for j in np.nonzero(row)[0]:            # atoms may repeat (edge-extended inputs): accumulate
            k = (at[j],)
            t[k] = t.get(k, Fraction(0)) + Fraction(float(row[j]))
        out[r] = Poly({k: v for k, v in t.items() if v})
    return out.reshape(rows.shape[:-1])


def avgpool2(a):
    """2x2 average pooling of an object array over its last two axes"""
    return (a[..., 0::2, 0::2] + a[..., 0::2, 1::2] + a[..., 1::2, 0::2] + a[..., 1::2, 1::2]) * Fraction(1, 4)


def extend(a, kind):
    """edge extension as the layers document it (object or float arrays, last two axes)"""
    H, W = a.shape[-2:]
    if kind == 'even':
        if H % 2:
            a = np.concatenate([a, a[..., -1:, :]], axis=-2)
        if W % 2:
            a = np.concatenate([a, a[..., :, -1:]], axis=-1)
        return a
    # multiple of 8, rows/cols repeated before and after
    for ax, n in ((-2, H), (-1, W)):
        rem = n % 8
        if rem:
            after = (9 - rem) // 2; before = (8 - rem) // 2
            idx = list(range(before)) + list(range(n)) + list(range(n - after, n))
            a = np.take(a, idx, axis=ax)
    return a


def mag_struct(p):
    """decompose an output element  sqrt(q) + c  -> (sqrt atom, q, c) or None"""
    if len(p.t) > 2:
        return None
    atom = None; c = Fraction(0)
    for k, v in p.t.items():
        if not k:
            c = v
        elif len(k) == 1 and v == 1 and P.ATOMS.kind[k[0]] == 'sqrt':
            atom = k[0]
        else:
            return None
    if atom is None:
        return None
    return atom, P.ATOMS.info[atom], c


def real_layer_out(kind, kw, xv):
    rt = symtorch.real_torch()
    lay = getattr(symtorch.real(), kind)(**kw)
    return lay(rt.tensor(xv, dtype=rt.float64)).detach().numpy()


def smooth_mag(re, im, b):
    return np.sqrt(re ** 2 + im ** 2 + b ** 2) - b


def ref_scat1(biort, b, colour, xv):
    """first-order scattering composed from the reference DTCWT (float), xv (B,C,H,W) -> (B, 7C or 9, h, w)"""
    qs = QS_FOR.get(biort, 'qshift_a')
    yl, yh, _ = DT.ref_forward(biort, qs, 1, xv)
    B, C = xv.shape[:2]
    ll = (yl[..., 0::2, 0::2] + yl[..., 0::2, 1::2] + yl[..., 1::2, 0::2] + yl[..., 1::2, 1::2]) / 4
    re = yh[0][..., 0]; im = yh[0][..., 1]          # (B,C,6,h,w)
    if colour:
        r = np.sqrt((re ** 2 + im ** 2).sum(axis=1) + b ** 2) - b       # (B,6,h,w)
        return np.concatenate([ll, r], axis=1)
    r = smooth_mag(re, im, b)                                           # (B,C,6,h,w)
    Z = np.concatenate([ll[:, None], np.moveaxis(r, 2, 1)], axis=1)     # (B,7,C,h,w)
    return Z.reshape(B, 7 * C, Z.shape[-2], Z.shape[-1])


def ref_scat2(biort, qshift, b, xv, colour=False):
    """second-order, two-scale scattering composed from the reference DTCWT (float), xv (B,C,H,W), H,W multiples of 8"""
    B, C = xv.shape[:2]
    yl, yh, _ = DT.ref_forward(biort, qshift, 2, xv)
    pool = lambda a: (a[..., 0::2, 0::2] + a[..., 0::2, 1::2] + a[..., 1::2, 0::2] + a[..., 1::2, 1::2]) / 4
    s0 = pool(yl)                                                        # (B,C,H/4,W/4)
    if colour:
        m1 = (np.sqrt((yh[0][..., 0] ** 2 + yh[0][..., 1] ** 2).sum(axis=1) + b ** 2) - b)[:, None]      # (B,1,6,H/2,W/2)
        s1_j2 = (np.sqrt((yh[1][..., 0] ** 2 + yh[1][..., 1] ** 2).sum(axis=1) + b ** 2) - b)[:, None]
        Cm = 1
    else:
        m1 = smooth_mag(yh[0][..., 0], yh[0][..., 1], b)                  # (B,C,6,H/2,W/2)
        s1_j2 = smooth_mag(yh[1][..., 0], yh[1][..., 1], b)               # (B,C,6,H/4,W/4)
        Cm = C
    img = np.moveaxis(m1, 2, 1).reshape(B, 6 * Cm, m1.shape[-2], m1.shape[-1])     # channel = o1*Cm + c
    l2, h2, _ = DT.ref_forward(biort, qshift, 1, img)
    s1_j1 = pool(l2).reshape(B, 6, Cm, l2.shape[-2] // 2, l2.shape[-1] // 2)
    m2 = smooth_mag(h2[0][..., 0], h2[0][..., 1], b)                      # (B,6Cm,6(o2),h,w)
    s2 = np.moveaxis(m2, 2, 1).reshape(B, 36, Cm, m2.shape[-2], m2.shape[-1])      # index o2*6 + o1
    if colour:
        Z = np.concatenate([s0, s1_j1[:, :, 0], s1_j2[:, 0], s2[:, :, 0]], axis=1)
        return Z
    Z = np.concatenate([s0[:, None], s1_j1, np.moveaxis(s1_j2, 2, 1), s2], axis=1)
    return Z.reshape(B, 49 * C, Z.shape[-2], Z.shape[-1])
