"""C07 — transforms are linear and act per (batch, channel) slice, identically for every slice."""
import numpy as np
import pywt
from fractions import Fraction
import symtorch
from symtorch import poly as P, tensor as T
from symtorch.poly import Poly
from vlib import core, smt, lincheck
from harness import dwtlib as D, dtlib as DT

KINDS = ['dwt1f', 'dwt1i', 'dwt2f', 'dwt2i', 'swt', 'dtf', 'dti']

META = {
    'functions': ['pytorch_wavelets.DWT1DForward.forward', 'pytorch_wavelets.DWT1DInverse.forward', 'pytorch_wavelets.DWTForward.forward', 'pytorch_wavelets.DWTInverse.forward',
                  'pytorch_wavelets.dwt.transform2d.SWTForward.forward', 'pytorch_wavelets.DTCWTForward.forward', 'pytorch_wavelets.DTCWTInverse.forward',
                  'pytorch_wavelets.dwt.lowlevel.afb1d', 'pytorch_wavelets.dwt.lowlevel.sfb1d', 'pytorch_wavelets.dwt.lowlevel.afb1d_atrous',
                  'pytorch_wavelets.dtcwt.lowlevel.colfilter', 'pytorch_wavelets.dtcwt.lowlevel.coldfilt', 'pytorch_wavelets.dtcwt.lowlevel.colifilt'],
    'explanation': 'C07: each transform is run on a (B,C) batch of input atoms. (1) every output element must be a homogeneous linear form in the input atoms '
                   '(no constant term, no purified non-linear atom) on every feasible path of the run, and all paths must give the same form (otherwise z3 produces an '
                   'input on the deviating path and additivity T(x) = T(x+r) + T(-r) is replayed on the real library); (2) the batched run must equal, slice by slice, '
                   'the same module run on each (1,1) slice alone - this is slice independence, same operator for every (n,c), and independence of batch size and '
                   'channel count in one identity. Optional prelude: another wavelet of the same filter length is run first in the same process with the same (B,C).',
    'bounds': {'added_families': ['haar+periodization, filters longer than the signal with several slices', 'SWT J=3 8x8 for every (B,C)', '(B,C) = (2,17), (1,33), (2,17) on 4x4 / N=8; J=5 (N=40), J=4 (16x16)'],
               'quick': {'transforms': KINDS, '(B,C)': [(1, 1), (2, 1), (1, 3), (2, 2)], 'configs per transform': '4-6 (wavelet/mode/size), sizes <= 8x8 (DTCWT 8x8, J<=2)',
                         'preludes': 'db3 -> coif1 / bior2.2 (same length 6) for the DWT/SWT kinds'},
               'thorough': {'(B,C)': [(1, 1), (2, 1), (1, 3), (2, 3), (3, 4)], 'configs per transform': '20', 'sizes': '<= 12x12'}},
    'outside': 'batch sizes / channel counts beyond the list; sizes beyond the list; thread-level parallelism inside kernels',
    'assumptions': ['real-arithmetic semantics'],
}


def configs(tier, seed):
    out = []
    bcs = [(1, 1), (2, 1), (1, 3), (2, 2)] if tier == 'quick' else [(1, 1), (2, 1), (1, 3), (2, 3), (3, 4)]
    d1 = [('haar', 'periodization', 2, 8), ('db4', 'periodization', 1, 4), ('db2', 'zero', 2, 9), ('bior2.4', 'symmetric', 1, 12), ('db3', 'periodization', 2, 12), ('sym4', 'reflect', 1, 11), ('haar', 'periodic', 3, 10)]
    d2 = [('haar', 'periodization', 1, 4, 6), ('db3', 'periodization', 2, 6, 4), ('db2', 'symmetric', 2, 6, 7), ('haar', 'zero', 2, 5, 6), ('db2', 'periodization', 1, 6, 8), ('bior1.3', 'reflect', 1, 7, 7), ('db3', 'periodic', 1, 6, 6)]
    if tier == 'thorough':
        d1 += [('db4', 'zero', 3, 17), ('coif1', 'symmetric', 2, 13), ('rbio1.3', 'periodization', 2, 16), ('db8', 'zero', 1, 20)]
        d2 += [('sym4', 'symmetric', 1, 9, 8), ('db2', 'zero', 3, 12, 12), ('bior2.4', 'periodization', 1, 10, 12)]
    for (B, C) in bcs:
        for (w, m, J, n) in d1:
            out.append(dict(kind='dwt1f', wave=w, mode=m, J=J, N=n, B=B, C=C))
            out.append(dict(kind='dwt1i', wave=w, mode=m, J=J, N=n, B=B, C=C))
        for (w, m, J, h, wd) in d2:
            out.append(dict(kind='dwt2f', wave=w, mode=m, J=J, H=h, W=wd, B=B, C=C))
            out.append(dict(kind='dwt2i', wave=w, mode=m, J=J, H=h, W=wd, B=B, C=C))
        for (w, m, J, h, wd) in [('db2', 'periodization', 2, 4, 8), ('haar', 'periodic', 1, 4, 4), ('bior1.3', 'periodization', 1, 6, 4), ('db2', 'periodization', 3, 8, 8)]:
            out.append(dict(kind='swt', wave=w, mode=m, J=J, H=h, W=wd, B=B, C=C))
        for (b, q, J, h, wd) in [('near_sym_a', 'qshift_a', 2, 6, 8), ('antonini', 'qshift_06', 1, 5, 4), ('legall', 'qshift_b', 2, 8, 8)][:2 if (B * C > 2 and tier == 'quick') else 3]:
            out.append(dict(kind='dtf', biort=b, qshift=q, J=J, H=h, W=wd, B=B, C=C))
            out.append(dict(kind='dti', biort=b, qshift=q, J=J, H=h, W=wd, B=B, C=C))
    # wide and deep: many channels (grouped-convolution interleaving, channel/batch folding), four and five levels
    out.append(dict(kind='dwt2f', wave='db2', mode='zero', J=1, H=4, W=4, B=2, C=17))
    out.append(dict(kind='dwt1f', wave='db2', mode='periodization', J=2, N=8, B=1, C=33))
    out.append(dict(kind='dtf', biort='near_sym_a', qshift='qshift_a', J=2, H=4, W=4, B=1, C=33))
    out.append(dict(kind='dti', biort='near_sym_a', qshift='qshift_a', J=2, H=4, W=4, B=2, C=17))
    out.append(dict(kind='dwt1f', wave='haar', mode='symmetric', J=5, N=40, B=2, C=2))
    out.append(dict(kind='dwt2f', wave='haar', mode='periodization', J=4, H=16, W=16, B=2, C=1))
    # preludes: a different wavelet with the same filter length was used before, with the same (B, C)
    for (B, C) in [(2, 2), (1, 3)]:
        out.append(dict(kind='dwt1f', wave='coif1', mode='zero', J=2, N=13, B=B, C=C, prelude='db3'))
        out.append(dict(kind='dwt2f', wave='bior2.2', mode='symmetric', J=1, H=7, W=8, B=B, C=C, prelude='db3'))
        out.append(dict(kind='dwt2i', wave='coif1', mode='periodization', J=1, H=8, W=8, B=B, C=C, prelude='db3'))
        out.append(dict(kind='swt', wave='coif1', mode='periodization', J=1, H=4, W=6, B=B, C=C, prelude='db3'))
    return out


def _slice_specs(cfg, B, C):
    k = cfg['kind']
    if k == 'dwt1f':
        return [('x', (B, C, cfg['N']))]
    if k in ('dwt2f', 'swt', 'dtf'):
        return [('x', (B, C, cfg['H'], cfg['W']))]
    if k in ('dwt1i', 'dwt2i'):
        c = dict(cfg, dim=1 if k == 'dwt1i' else 2)
        sl, sh = D.pyramid_shapes(c)
        return [('yl', (B, C) + tuple(sl))] + [('yh%d' % (j + 1), (B, C) + tuple(s)) for j, s in enumerate(sh)]
    sl, sh = DT.pyramid_shapes(cfg['biort'], cfg['qshift'], cfg['J'], cfg['H'], cfg['W'])
    return [('yl', (B, C) + tuple(sl))] + [('yh%d' % (j + 1), (B, C) + tuple(s)) for j, s in enumerate(sh)]


def _module(pw, cfg, wave=None):
    k = cfg['kind']
    w = wave or cfg.get('wave')
    if k == 'dwt1f':
        return pw.DWT1DForward(J=cfg['J'], wave=w, mode=cfg['mode'])
    if k == 'dwt1i':
        return pw.DWT1DInverse(wave=w, mode=cfg['mode'])
    if k == 'dwt2f':
        return pw.DWTForward(J=cfg['J'], wave=w, mode=cfg['mode'])
    if k == 'dwt2i':
        return pw.DWTInverse(wave=w, mode=cfg['mode'])
    if k == 'swt':
        return pw.dwt.transform2d.SWTForward(J=cfg['J'], wave=w, mode=cfg['mode'])
    if k == 'dtf':
        return pw.DTCWTForward(biort=cfg['biort'], qshift=cfg['qshift'], J=cfg['J'])
    return pw.DTCWTInverse(biort=cfg['biort'], qshift=cfg['qshift'])


def _apply(m, cfg, ts):
    k = cfg['kind']
    if k in ('dwt1f', 'dwt2f', 'dtf'):
        yl, yh = m(ts[0])
        return [yl] + list(yh)
    if k == 'swt':
        return list(m(ts[0]))
    return [m((ts[0], list(ts[1:])))]


def _tt(pw):
    return symtorch.shim() if pw is symtorch.sym() else symtorch.real_torch()


def case(cfg):
    B, C = cfg['B'], cfg['C']
    in_specs = _slice_specs(cfg, B, C)

    def prelude(pw):
        if cfg.get('prelude'):
            tt = _tt(pw)
            m0 = _module(pw, cfg, wave=cfg['prelude'])
            zs = [tt.zeros(*s, dtype=tt.float64) for _, s in _slice_specs(dict(cfg, wave=cfg['prelude']), B, C)]
            _apply(m0, cfg, zs)

    def batched(pw, ts):
        prelude(pw)
        outs = _apply(_module(pw, cfg), cfg, ts)
        return [('out%d' % i, o) for i, o in enumerate(outs)]

    def per_slice(pw, ts):
        tt = _tt(pw)
        m = _module(pw, cfg)
        acc = None
        for b in range(B):
            row = None
            for c in range(C):
                o = _apply(m, cfg, [t[b:b + 1, c:c + 1] for t in ts])
                row = o if row is None else [tt.cat([r, x], dim=1) for r, x in zip(row, o)]
            acc = row if acc is None else [tt.cat([a, r], dim=0) for a, r in zip(acc, row)]
        return [('out%d' % i, o) for i, o in enumerate(acc)]
    return in_specs, batched, per_slice


def run_config(cfg):
    res = core.Result(cfg)
    core.begin()
    facts = dict(kind=cfg['kind'], B=cfg['B'], C=cfg['C'], prelude=bool(cfg.get('prelude')))
    try:
        in_specs, batched, per_slice = case(cfg)
    except Exception as e:
        res.status = 'skipped'; res.notes.append('shapes unavailable: %s' % e); return res
    paths = []

    def on_path(pc, A, Bv, ids):
        forms = []
        for nm, t in A:
            forms.append(t.a.copy() if isinstance(t, T.Tensor) and t.a.dtype == object else None)
        paths.append((list(pc), forms, [i.copy() for i in ids]))
    lincheck.check_same(res, cfg, facts, in_specs, batched, per_slice, what='batched run vs per-slice runs', allow_both_raise=True, on_path=on_path)
    if res.status not in ('held',):
        return res
    # (1) linear on every path, and the same linear map on all of them
    rt = symtorch.real_torch()
    tau = Fraction(1, 10 ** 9)
    st = res.stats or smt.Stats()
    for pi, (pc, forms, ids) in enumerate(paths):
        for oi, arr in enumerate(forms):
            if arr is None:
                continue
            for e, p in enumerate(arr.reshape(-1)):
                bad = None
                if not p.is_linear():
                    bad = 'is not linear in the inputs'
                elif p.const_value():
                    bad = 'has a constant term %g (T(0) != 0)' % float(p.const_value())
                elif any(P.ATOMS.kind[k[0]] != 'in' for k in p.t if k):
                    bad = 'depends on a non-linear function of the inputs'
                if bad:
                    xv = [np.random.default_rng(5).uniform(-1, 1, size=s) for _, s in in_specs]
                    rep = _replay_additivity(cfg, xv, oi, e, float(tau))
                    res.status = 'violation'
                    res.violations.append(dict(what='output %d[%d] %s' % (oi, e, bad), facts=facts, replay=dict(kind='add', xs=[x.tolist() for x in xv], out=oi, e=e, tau=float(tau)),
                                               reproduced=rep['reproduced'], path_dependent=bool(pc)))
                    return res
    if len(paths) > 1:
        # engine state is that of the last explored path; input atoms have the same ids on every path
        base_pc, base, ids = paths[0]
        for pi in range(1, len(paths)):
            pc, forms, _ = paths[pi]
            solver = smt.Solver(stats=st)
            for i in ids:
                for a in i.reshape(-1):
                    solver.var(int(a))
            try:
                solver.add_path(pc)
            except Exception as e:
                res.status = 'inconclusive'; res.notes.append('path condition not expressible after the run: %s' % e); return res
            for oi, (a0, a1) in enumerate(zip(base, forms)):
                if a0 is None or a1 is None:
                    continue
                for e, (p, q) in enumerate(zip(a0.reshape(-1), a1.reshape(-1))):
                    d = q - p
                    if not d.is_zero():
                        res.nontrivial = True
                    v, model = solver.decide_amplified(d, tau, label='path%d out%d[%d]' % (pi, oi, e))
                    if v == 'sat':
                        model = solver.nice_model(solver._last_query, [int(a) for i in ids for a in i.reshape(-1)]) or model
                        xv = [core.model_array(model, i) for i in ids]
                        rep = _replay_additivity(cfg, xv, oi, e, float(tau))
                        if not rep['reproduced']:
                            # the two linear maps differ; additivity is visible from a point of the *thin* region (x there, x + r and -r
                            # in the other one): look for a witness on the first path as well
                            s2 = smt.Solver(stats=st)
                            for i in ids:
                                for a in i.reshape(-1):
                                    s2.var(int(a))
                            try:
                                s2.add_path(base_pc)
                                v2, m2 = s2.decide_amplified(d, tau, label='path0 out%d[%d]' % (oi, e))
                            except Exception:
                                v2, m2 = 'unknown', None
                            if v2 == 'sat':
                                m2 = s2.nice_model(s2._last_query, [int(a) for i in ids for a in i.reshape(-1)]) or m2
                                xv2 = [core.model_array(m2, i) for i in ids]
                                rep2 = _replay_additivity(cfg, xv2, oi, e, float(tau))
                                if rep2['reproduced']:
                                    xv, rep = xv2, rep2
                        res.status = 'violation'
                        res.violations.append(dict(what='not linear: on the data-dependent path %s output %d[%d] deviates from the linear map of the generic path; additivity fails by %.3g'
                                                   % ([bool(d_) for _, d_ in pc], oi, e, rep['diff']), facts=dict(facts, path=[bool(d_) for _, d_ in pc]),
                                                   replay=dict(kind='add', xs=[x.tolist() for x in xv], out=oi, e=e, tau=float(tau)), reproduced=rep['reproduced'], path_dependent=True))
                        res.stats = st
                        return res
                    elif v != 'unsat':
                        res.status = 'inconclusive'; res.notes.append('solver answered %s' % v)
    res.stats = st
    return res


def _replay_additivity(cfg, xv, oi, e, tau):
    """T(x) versus T(x + r) + T(-r) on the real library (r generic)"""
    rt = symtorch.real_torch()
    in_specs, batched, per_slice = case(cfg)
    rng = np.random.default_rng(99)
    rs = [rng.uniform(-1, 1, size=x.shape) for x in xv]
    f = lambda arrs: batched(symtorch.real(), [rt.tensor(a, dtype=rt.float64) for a in arrs])
    t0 = f(xv); t1 = f([x + r for x, r in zip(xv, rs)]); t2 = f([-r for r in rs]); tz = f([np.zeros_like(x) for x in xv])
    diff = abs(float(t0[oi][1].reshape(-1)[e]) - float(t1[oi][1].reshape(-1)[e]) - float(t2[oi][1].reshape(-1)[e]))
    diff = max(diff, abs(float(tz[oi][1].reshape(-1)[e])))
    return dict(reproduced=diff > tau / 2, diff=diff)


def replay(payload):
    cfg = payload['config']; rp = payload['replay']
    core.begin()
    in_specs, batched, per_slice = case(cfg)
    if rp['kind'] == 'add':
        r = _replay_additivity(cfg, [np.array(x) for x in rp['xs']], rp['out'], rp['e'], rp['tau'])
        return dict(reproduced=r['reproduced'], detail=r)
    return lincheck.replay_same(payload, in_specs, batched, per_slice)
