"""C06 — DTCWT back-propagation is the exact adjoint (forward and inverse, layouts, masks, grad subsets)."""
import itertools
import numpy as np
from fractions import Fraction
import symtorch
from vlib import core, adjcheck
from harness import dtlib as DT, dwtlib as D

META = {
    'functions': ['pytorch_wavelets.dtcwt.transform_funcs.FWD_J1.forward', 'pytorch_wavelets.dtcwt.transform_funcs.FWD_J1.backward',
                  'pytorch_wavelets.dtcwt.transform_funcs.FWD_J2PLUS.forward', 'pytorch_wavelets.dtcwt.transform_funcs.FWD_J2PLUS.backward',
                  'pytorch_wavelets.dtcwt.transform_funcs.INV_J1.forward', 'pytorch_wavelets.dtcwt.transform_funcs.INV_J1.backward',
                  'pytorch_wavelets.dtcwt.transform_funcs.INV_J2PLUS.forward', 'pytorch_wavelets.dtcwt.transform_funcs.INV_J2PLUS.backward',
                  'pytorch_wavelets.DTCWTForward.forward', 'pytorch_wavelets.DTCWTInverse.forward'],
    'explanation': 'C06: as C05 for the DTCWT: the module is run with the chosen inputs requiring grad, the tape model calls the repository\'s FWD_J1/FWD_J2PLUS/INV_J1/'
                   'INV_J2PLUS.backward (which re-use the filters as their own time-reverse / swap the trees) and every leaf gradient, a linear form in the cotangent '
                   'atoms, is compared with J^T g read off the same symbolic forward run. The "filters are symmetric / mutually time-reversed" assumption is therefore '
                   'tested, not assumed.',
    'bounds': {'added_families': ['cotangent boxes of radius 1, 2^-30, 2^-60 when the backward selects by magnitude'],
               'quick': {'forward': '6 filter pairs x sizes (4,4),(6,8),(5,7),(8,8),(10,12) x J<=2 (+J=3 on 8x8); 8 layouts; all skip/include masks J=2',
                         'inverse': 'all non-empty grad subsets of (yl, yh_1..J) for J<=2 on 3 filter pairs; None levels on 2 configs'},
               'thorough': {'forward': '20 filter pairs, sizes up to 12x12, J<=3, all 30 layouts on one pair, all masks J<=3', 'inverse': 'all subsets J<=3'}},
    'outside': 'sizes beyond the lists; the autograd engine is modelled (validated against real autograd per configuration)',
    'assumptions': ['real-arithmetic semantics; tolerance 1e-9 (antonini is symmetric only to 4.7e-15)', 'tape model of torch.autograd'],
}

SIZES_Q = [(4, 4), (6, 8), (5, 7), (8, 8), (10, 12)]


def configs(tier, seed):
    out = []
    pairs = DT.QUICK_PAIRS if tier == 'quick' else DT.ALL_PAIRS
    sizes = SIZES_Q if tier == 'quick' else SIZES_Q + [(2, 2), (3, 5), (12, 12), (9, 12), (7, 7)]
    for i, (b, q) in enumerate(pairs):
        for k, (h, w) in enumerate(sizes):
            for J in (1, 2, 3):
                if J == 3 and not ((h, w) == (8, 8) or (tier == 'thorough' and (k + i + seed) % 3 == 0)):
                    continue
                if tier == 'quick' and J == 2 and h * w > 64 and i > 1:
                    continue
                out.append(dict(dir='fwd', biort=b, qshift=q, J=J, H=h, W=w))
    lay = [(0, 1), (1, 5), (2, 3), (3, 2), (4, 5), (5, 0), (4, 2), (0, 4)] if tier == 'quick' else [(o, r) for o in range(6) for r in range(6) if o != r]
    for (o, r) in lay:
        out.append(dict(dir='fwd', biort='near_sym_a', qshift='qshift_a', J=2, H=6, W=8, o=o, ri=r))
        out.append(dict(dir='inv', biort='near_sym_a', qshift='qshift_a', J=2, H=6, W=8, o=o, ri=r, sub=[1, 1, 1]))
    for J in ((2,) if tier == 'quick' else (1, 2, 3)):
        for sk in itertools.product([False, True], repeat=J):
            for inc in itertools.product([False, True], repeat=J):
                if any(sk) or any(inc):
                    out.append(dict(dir='fwd', biort='near_sym_a', qshift='qshift_a', J=J, H=6, W=6, skip=list(sk), inc=list(inc)))
    ipairs = DT.QUICK_PAIRS[:3] if tier == 'quick' else DT.ALL_PAIRS[::3]
    for (b, q) in ipairs:
        for J in ((1, 2) if tier == 'quick' else (1, 2, 3)):
            for s in itertools.product([0, 1], repeat=J + 1):
                if any(s):
                    out.append(dict(dir='inv', biort=b, qshift=q, J=J, H=6, W=8, sub=list(s)))
        out.append(dict(dir='inv', biort=b, qshift=q, J=2, H=5, W=7, sub=[1, 1, 1]))
        out.append(dict(dir='inv', biort=b, qshift=q, J=3, H=8, W=8, sub=[1, 0, 1, 1]))
    # the same module is called on other data before the backward pass / the graph is back-propagated twice
    for extra in (dict(reuse=True), dict(twice=True), dict(reuse=True, twice=True)):
        out.append(dict(dir='fwd', biort='near_sym_a', qshift='qshift_a', J=2, H=6, W=8, **extra))
        out.append(dict(dir='fwd', biort='near_sym_b', qshift='qshift_b', J=3, H=8, W=8, **extra))
        out.append(dict(dir='inv', biort='near_sym_a', qshift='qshift_a', J=2, H=6, W=8, sub=[1, 1, 1], **extra))
        out.append(dict(dir='fwd', biort='near_sym_a', qshift='qshift_a', J=2, H=6, W=6, skip=[False, True], inc=[True, False], **extra))
    out.append(dict(dir='inv', biort='near_sym_a', qshift='qshift_a', J=2, H=8, W=8, sub=[1, 0, 1], none=[1, 0]))
    out.append(dict(dir='inv', biort='near_sym_a', qshift='qshift_a', J=2, H=8, W=8, sub=[1, 1, 0], none=[0, 1]))
    return out


def _case(cfg):
    kw = dict(biort=cfg['biort'], qshift=cfg['qshift'])
    if 'o' in cfg:
        kw.update(o_dim=cfg['o'], ri_dim=cfg['ri'])
    if cfg['dir'] == 'fwd':
        shapes = [(1, 1, cfg['H'], cfg['W'])]
        fkw = dict(kw)
        if 'skip' in cfg:
            fkw.update(skip_hps=list(cfg['skip']), include_scale=list(cfg['inc']))

        def run(pw, leaves):
            m = pw.DTCWTForward(J=cfg['J'], **fkw)
            yl, yh = m(leaves[0])
            if cfg.get('reuse'):
                # the same module transforms another image (other size) before the first result is back-propagated
                tt = D.torch_of(pw)
                m(tt.ones(1, 2, cfg['H'] + 4, cfg['W'] + 2, dtype=leaves[0].dtype).requires_grad_(True))
            return (list(yl) if isinstance(yl, (list, tuple)) else [yl]) + list(yh)
        return shapes, run
    sl, sh = DT.pyramid_shapes(cfg['biort'], cfg['qshift'], cfg['J'], cfg['H'], cfg['W'])
    shapes = [(1, 1) + tuple(sl)] + [(1, 1) + tuple(s) for s in sh]
    if 'o' in cfg:
        def mv(s):
            a = np.moveaxis(np.zeros(s), (2, 5), (cfg['o'], cfg['ri']))
            return tuple(a.shape)
        shapes = [shapes[0]] + [mv(s) for s in shapes[1:]]

    def run(pw, leaves):
        m = pw.DTCWTInverse(**kw)
        y = m((leaves[0], list(leaves[1:])))
        if cfg.get('reuse'):
            tt = D.torch_of(pw)
            sl2, sh2 = DT.pyramid_shapes(cfg['biort'], cfg['qshift'], cfg['J'], cfg['H'] + 4, cfg['W'] + 8)
            p2 = [tt.ones(*((1, 2) + tuple(s_)), dtype=leaves[0].dtype).requires_grad_(True) for s_ in [sl2] + list(sh2)]
            if 'o' not in cfg:
                m((p2[0], p2[1:]))
        return [y]
    return shapes, run


def run_config(cfg):
    res = core.Result(cfg)
    core.begin()
    shapes, run = _case(cfg)
    nl = len(shapes)
    sub = cfg.get('sub') or [1] * nl
    none = [0] + list(cfg.get('none') or [0] * (nl - 1)) if cfg['dir'] == 'inv' else [0]
    facts0 = dict(dir=cfg['dir'], biort=cfg['biort'], qshift=cfg['qshift'])
    names = ['x'] if cfg['dir'] == 'fwd' else ['yl'] + ['yh%d' % j for j in range(1, nl)]
    adjcheck.adjoint_check(res, cfg, facts0, run, shapes, sub, none, Fraction(1, 10 ** 8), leaf_names=names)
    return res


def replay(payload):
    cfg = payload['config']; rp = payload['replay']
    core.begin()
    shapes, run = _case(cfg)
    nl = len(shapes)
    sub = cfg.get('sub') or [1] * nl
    none = [0] + list(cfg.get('none') or [0] * (nl - 1)) if cfg['dir'] == 'inv' else [0]
    if rp['kind'] == 'raise':
        return dict(reproduced=True)
    gv = [np.array(g) for g in rp['g']] if rp['kind'] == 'grad' else None
    r = adjcheck.replay_adjoint(run, shapes, sub, none, gv, rp['leaf'], tuple(rp['idx']), rp.get('tau', 1e-8))
    return dict(reproduced=r['reproduced'], detail=r)
