"""C05 — DWT back-propagation is the exact adjoint, for every subset of arguments that requires grad."""
import time
import itertools
import numpy as np
import pywt
from fractions import Fraction
import symtorch
from symtorch import poly as P, tensor as T, autograd as AG
from symtorch.poly import Poly
from vlib import core, smt, adjcheck
from harness import dwtlib as D

WAVES_Q = ['haar', 'db2', 'db3', 'bior2.4', 'bior3.1', 'sym4']

META = {
    'functions': ['pytorch_wavelets.dwt.lowlevel.AFB1D.forward', 'pytorch_wavelets.dwt.lowlevel.AFB1D.backward', 'pytorch_wavelets.dwt.lowlevel.AFB2D.forward',
                  'pytorch_wavelets.dwt.lowlevel.AFB2D.backward', 'pytorch_wavelets.dwt.lowlevel.SFB1D.forward', 'pytorch_wavelets.dwt.lowlevel.SFB1D.backward',
                  'pytorch_wavelets.dwt.lowlevel.SFB2D.forward', 'pytorch_wavelets.dwt.lowlevel.SFB2D.backward', 'pytorch_wavelets.DWT1DForward.forward',
                  'pytorch_wavelets.DWT1DInverse.forward', 'pytorch_wavelets.DWTForward.forward', 'pytorch_wavelets.DWTInverse.forward'],
    'explanation': 'C05: the forward (resp. inverse) module is run with the chosen subset of arguments requiring grad; the tape model of autograd calls the '
                   "repository's own backward functions with the needs_input_grad torch would pass; the resulting gradient of every leaf element is a linear "
                   'form in the cotangent atoms g. Oracle: J^T g read off the coefficient table of the SAME symbolic forward run (the true VJP of the function that '
                   'was computed). Query per leaf element: exists g in [-1,1]^m with |grad_i(g) - (J^T g)_i| > tau. A leaf that requires grad, has a non-zero column '
                   'in J and receives no gradient is a violation.',
    'bounds': {'added_families': ['LeGall 5/3 taps as a tuple (odd length), modes zero and periodization', 'per-axis pairs db2|db3 (fwd, J=2, 12x12), db2|bior1.3 (inv, 8x8)', 'C=2,3 channels for grad subsets [1,0] [1,1] [0,1] [1,0,1]', 'cotangent boxes of radius 1, 2^-30, 2^-60 when the backward selects by magnitude'],
               'quick': {'wavelets': WAVES_Q, 'modes': D.MODES, '1-D N': 'L+1, 2L, 2L+1 and one long size (interior elements) per (wavelet, J)', '2-D': '(6,6),(5,8),(9,7) + one 12x12',
                         'J': '1,2 (3 on two configs)', 'grad subsets (inverse)': 'all non-empty subsets of (yl, yh_1..yh_J) for J<=2'},
               'thorough': {'wavelets': WAVES_Q + ['db4', 'db6', 'coif1', 'rbio1.3', 'bior1.5'], '1-D N': '4..2L+2', 'J': '1..3', 'subsets': 'all for J<=3'}},
    'outside': 'sizes beyond the lists; float rounding; second-order gradients; the autograd engine itself is modelled (tape at Function granularity), not executed '
               '- the model is cross-checked against real torch.autograd on every configuration',
    'assumptions': ['real-arithmetic semantics', 'tape model of torch.autograd (validated per configuration against real autograd at a random cotangent)'],
}


def configs(tier, seed):
    out = []
    waves = WAVES_Q if tier == 'quick' else WAVES_Q + ['db4', 'db6', 'coif1', 'rbio1.3', 'bior1.5']
    for w in waves:
        L = D.filt_len(w)
        for mode in D.MODES:
            for J in ((1, 2) if tier == 'quick' else (1, 2, 3)):
                if tier == 'quick':
                    ns = [L + 1, 2 * L, 2 * L + 1, min(2 * (L - 1) * (2 ** J - 1) + 8, 72)]
                else:
                    ns = sorted(set(list(range(4, 2 * L + 3)) + [min(2 * (L - 1) * (2 ** J - 1) + 8, 96)]))
                    ns = [n for k, n in enumerate(ns) if (k + seed) % 2 == 0 or n <= L + 1]
                for n in ns:
                    out.append(dict(dim=1, wave=w, mode=mode, J=J, N=n, dir='fwd', sub=None))
                # inverse: all non-empty subsets for J<=2, three for J=3
                subs = [s for s in itertools.product([0, 1], repeat=J + 1) if any(s)]
                if J == 3:
                    subs = [(1, 0, 0, 0), (0, 1, 0, 1), (1, 1, 1, 1), (0, 0, 0, 1)]
                for s in subs:
                    out.append(dict(dim=1, wave=w, mode=mode, J=J, N=ns[1] if tier == 'quick' else 2 * L + 1, dir='inv', sub=list(s)))
                if len(ns) > 3:
                    out.append(dict(dim=1, wave=w, mode=mode, J=J, N=ns[-1], dir='inv', sub=[1] * (J + 1)))
    w2 = ['haar', 'db2', 'bior2.4'] if tier == 'quick' else ['haar', 'db2', 'db3', 'bior2.4', 'bior3.1']
    for w in w2:
        for mode in D.MODES:
            for J in (1, 2):
                shapes = [(6, 6), (5, 8), (9, 7)] if tier == 'quick' else [(6, 6), (5, 8), (9, 7), (10, 10), (7, 7)]
                if w == 'db2' and J == 1:
                    shapes = shapes + [(14, 14)]
                for (h, wd) in shapes:
                    if J == 2 and tier == 'quick' and (h, wd) != (6, 6) and w != 'haar':
                        continue
                    out.append(dict(dim=2, wave=w, mode=mode, J=J, H=h, W=wd, dir='fwd', sub=None))
                subs = [s for s in itertools.product([0, 1], repeat=J + 1) if any(s)]
                for s in subs:
                    out.append(dict(dim=2, wave=w, mode=mode, J=J, H=6, W=8 if w != 'bior2.4' else 7, dir='inv', sub=list(s)))
    def _ps(c):
        L = D.filt_len(c['wave'])
        dims = [c['N']] if c['dim'] == 1 else [c['H'], c['W']]
        return c['mode'] == 'periodization' and any(D.per_short(n, L, c['J']) for n in dims)
    for c in [dict(dim=1, wave='db2', mode='zero', J=3, N=19, dir='fwd', sub=None), dict(dim=1, wave='db2', mode='periodization', J=3, N=24, dir='fwd', sub=None)]:
        out.append(c)
    # user-supplied filter banks: odd lengths (LeGall 5/3 taps), distinct column / row wavelets
    lg = dict(h0=[-0.125, 0.25, 0.75, 0.25, -0.125], h1=[-0.5, 1.0, -0.5], g0=[0.5, 1.0, 0.5], g1=[-0.125, -0.25, 0.75, -0.25, -0.125])
    for mode in ('zero', 'periodization'):
        out.append(dict(dim=1, wave=[lg['h0'], lg['h1'] + [0.0, 0.0]], mode=mode, J=1, N=12, dir='fwd', sub=None, custom='legall53'))
        out.append(dict(dim=2, wave=[lg['h0'], lg['h1'] + [0.0, 0.0]], mode=mode, J=1, H=8, W=10, dir='fwd', sub=None, custom='legall53'))
    for mode in ('zero', 'periodization', 'symmetric'):
        out.append(dict(dim=2, wave='db2', wave_row='db3', mode=mode, J=2, H=12, W=12, dir='fwd', sub=None))
        out.append(dict(dim=2, wave='db2', wave_row='bior1.3', mode=mode, J=1, H=8, W=8, dir='inv', sub=[1, 1]))
    # several channels (channel interleaving of the grouped convolution matters in the backward pass)
    for mode in ('zero', 'periodization'):
        for s_ in ([1, 0], [1, 1], [0, 1]):
            out.append(dict(dim=2, wave='db2', mode=mode, J=1, H=6, W=8, dir='inv', sub=s_, C=2))
        out.append(dict(dim=2, wave='db2', mode=mode, J=2, H=8, W=8, dir='inv', sub=[1, 0, 1], C=3))
        out.append(dict(dim=2, wave='db2', mode=mode, J=2, H=6, W=8, dir='fwd', sub=None, C=2))
        out.append(dict(dim=1, wave='db2', mode=mode, J=2, N=12, dir='inv', sub=[1, 0, 1], C=2))
    # the same module is called on other data before the backward pass / the graph is back-propagated twice
    for extra in (dict(reuse=True), dict(twice=True), dict(reuse=True, twice=True)):
        for mode in ('zero', 'periodization'):
            out.append(dict(dim=1, wave='db2', mode=mode, J=2, N=12, dir='fwd', sub=None, **extra))
            out.append(dict(dim=2, wave='db2', mode=mode, J=2, H=8, W=8, dir='fwd', sub=None, **extra))
            out.append(dict(dim=1, wave='db2', mode=mode, J=2, N=12, dir='inv', sub=[1, 1, 1], **extra))
            out.append(dict(dim=2, wave='db2', mode=mode, J=1, H=8, W=6, dir='inv', sub=[1, 1], **extra))
    # None levels in the inverse
    for mode in D.MODES:
        out.append(dict(dim=1, wave='db2', mode=mode, J=2, N=9, dir='inv', sub=[1, 0, 1], none=[1, 0]))
        out.append(dict(dim=2, wave='db2', mode=mode, J=2, H=6, W=8, dir='inv', sub=[1, 1, 0], none=[0, 1]))
    return out


def _flen(cfg):
    w = cfg['wave']
    L = len(w[0]) if isinstance(w, list) else D.filt_len(w)
    if cfg.get('wave_row'):
        L = max(L, D.filt_len(cfg['wave_row']))
    return L


def _odd_level(cfg):
    L = _flen(cfg)
    for n in ([cfg['N']] if cfg['dim'] == 1 else [cfg['H'], cfg['W']]):
        for _ in range(cfg['J']):
            if n % 2:
                return True
            n = pywt.dwt_coeff_len(n, L, cfg['mode'])
    return False


def _border_width(cfg):
    L = _flen(cfg)
    return (L - 1) * (2 ** cfg['J'] - 1) + 1


def _wave_arg(cfg, inverse):
    w = cfg['wave']
    if isinstance(w, list):          # explicit (lowpass, highpass) taps
        return tuple(np.array(f, dtype=float) for f in w)
    if cfg.get('wave_row'):
        wc = pywt.Wavelet(w); wr = pywt.Wavelet(cfg['wave_row'])
        f = [wc.rec_lo, wc.rec_hi, wr.rec_lo, wr.rec_hi] if inverse else [wc.dec_lo, wc.dec_hi, wr.dec_lo, wr.dec_hi]
        return tuple(np.array(v) for v in f)
    return w


def _run(pw, cfg, leaves):
    """leaves: list of input tensors (fwd: [x]; inv: [yl, yh1.. (None allowed)]) -> list of output tensors"""
    kinds = ('fwd1', 'inv1') if cfg['dim'] == 1 else ('fwd2', 'inv2')
    tt = D.torch_of(pw)
    if cfg['dir'] == 'fwd':
        m = D.make_module(pw, kinds[0], dict(cfg, wave=_wave_arg(cfg, False)))
        yl, yh = m(leaves[0])
        if cfg.get('reuse'):
            # the same module transforms another signal (other size, two channels) before the first result is back-propagated
            sh = (1, 2, cfg['N'] + 3) if cfg['dim'] == 1 else (1, 2, cfg['H'] + 3, cfg['W'] + 2)
            m(tt.ones(*sh, dtype=leaves[0].dtype).requires_grad_(True))
        return [yl] + list(yh)
    m = D.make_module(pw, kinds[1], dict(cfg, wave=_wave_arg(cfg, True)))
    y = m((leaves[0], list(leaves[1:])))
    if cfg.get('reuse'):
        c2 = dict(cfg, **({'N': cfg['N'] + 4} if cfg['dim'] == 1 else {'H': cfg['H'] + 4, 'W': cfg['W'] + 2}))
        sl, shs = D.pyramid_shapes(c2)
        m((tt.ones(*((1, 2) + tuple(sl)), dtype=leaves[0].dtype).requires_grad_(True),
           [tt.ones(*((1, 2) + tuple(s_)), dtype=leaves[0].dtype).requires_grad_(True) for s_ in shs]))
    return [y]


def _leaf_shapes(cfg):
    C = cfg.get('C', 1)
    if cfg['dir'] == 'fwd':
        return [D.in_shape(dict(cfg, B=1, C=C))]
    if cfg.get('wave_row'):
        c = pywt.wavedec2(np.zeros((cfg['H'], cfg['W'])), (pywt.Wavelet(cfg['wave']), pywt.Wavelet(cfg['wave_row'])), mode=cfg['mode'], level=cfg['J'])
        sl, sh = c[0].shape, [(3,) + b[0].shape for b in c[1:][::-1]]
    else:
        sl, sh = D.pyramid_shapes(cfg)
    return [(1, C) + tuple(sl)] + [(1, C) + tuple(s) for s in sh]


def run_config(cfg):
    res = core.Result(cfg)
    core.begin()
    L = _flen(cfg)
    try:
        shapes = _leaf_shapes(cfg)
    except Exception as e:
        res.status = 'skipped'; res.notes.append('pyramid shapes unavailable: %s' % e); return res
    nl = len(shapes)
    sub = cfg['sub'] if cfg['sub'] is not None else [1] * nl
    none = [0] + list(cfg.get('none') or [0] * (nl - 1)) if cfg['dir'] == 'inv' else [0]
    facts0 = dict(dir=cfg['dir'], dim=cfg['dim'], mode=cfg['mode'], wave=str(cfg.get('custom') or cfg['wave']), odd_level=bool(cfg['dir'] == 'fwd' and _odd_level(cfg)), odd_filter=bool(_flen(cfg) % 2),
                  highpass_only=bool(cfg['dir'] == 'inv' and not sub[0]))
    bw = _border_width(cfg)
    dim = cfg['dim']

    def interior(k, idx, shape):
        return all(bw <= i < n - bw for i, n in zip(idx[-dim:], shape[-dim:]))
    names = ['x'] if cfg['dir'] == 'fwd' else ['yl'] + ['yh'] * (nl - 1)
    adjcheck.adjoint_check(res, cfg, facts0, lambda pw, leaves: _run(pw, cfg, leaves), shapes, sub, none, Fraction(1, 10 ** 9) * max(1, L),
                           interior_fn=interior, leaf_names=names)
    return res


def replay(payload):
    cfg = payload['config']; rp = payload['replay']
    core.begin()
    shapes = _leaf_shapes(cfg)
    nl = len(shapes)
    sub = cfg['sub'] if cfg['sub'] is not None else [1] * nl
    none = [0] + list(cfg.get('none') or [0] * (nl - 1)) if cfg['dir'] == 'inv' else [0]
    if rp['kind'] == 'raise':
        return dict(reproduced=True)
    gv = [np.array(g) for g in rp['g']] if rp['kind'] == 'grad' else None
    r = adjcheck.replay_adjoint(lambda pw, leaves: _run(pw, cfg, leaves), shapes, sub, none, gv, rp['leaf'], tuple(rp['idx']), rp.get('tau', 1e-9))
    return dict(reproduced=r['reproduced'], detail=r)
