"""Shared pieces of the DWT harnesses (C01 C02 C05 C10 C14 C17 C19)."""
import numpy as np
import pywt
from fractions import Fraction
import symtorch
from symtorch import poly as P, tensor as T
from vlib import core, oracles, smt

MODES = ['zero', 'symmetric', 'reflect', 'periodic', 'periodization']


# user-supplied filter banks (not in PyWavelets' catalogue; given to the library as tuples of arrays, to PyWavelets as Wavelet(filter_bank=...));
# synthesis/analysis equality with PyWavelets does not need perfect reconstruction
CUSTOM = {
    'custom:rot2': dict(dec_lo=[0.6, 0.8], dec_hi=[-0.8, 0.6], rec_lo=[0.8, 0.6], rec_hi=[0.6, -0.8]),          # orthogonal 2-tap, not Haar
    'custom:asym4': dict(dec_lo=[0.25, 0.5, -0.125, 1.0], dec_hi=[0.5, -1.0, 0.75, 0.125], rec_lo=[1.0, -0.25, 0.5, 0.125], rec_hi=[-0.5, 0.25, 1.0, -0.75]),
}


def W(wave):
    """what to hand to PyWavelets for this configuration's wavelet ('pair:a|b' = wavelet a along the columns (axis -2), b along the rows: 2-D only)"""
    if isinstance(wave, str) and wave.startswith('pair:'):
        a, b = wave[5:].split('|')
        return (pywt.Wavelet(a), pywt.Wavelet(b))
    if isinstance(wave, str) and wave in CUSTOM:
        c = CUSTOM[wave]
        return pywt.Wavelet(wave, filter_bank=[c['dec_lo'], c['dec_hi'], c['rec_lo'], c['rec_hi']])
    return wave


def odd_bank(name, flip):
    """a perfect-reconstruction bank of ODD length: the PyWavelets bank `name` with one zero tap appended to the analysis filters and
    prepended to the synthesis filters (flip: the other way round).  In the library's convention (analysis: full convolution, keep
    the odd samples; synthesis: upsample, convolve, drop L-2 samples at each end) the padded bank reconstructs exactly like the
    original one.  PyWavelets itself pads odd-length banks to even length, so it is no oracle here: only the round trip is checked."""
    w = pywt.Wavelet(name)
    d0, d1, r0, r1 = [np.asarray(f, dtype=float) for f in w.filter_bank]
    z = np.zeros(1)
    if flip:
        return np.r_[z, d0], np.r_[z, d1], np.r_[r0, z], np.r_[r1, z]
    return np.r_[d0, z], np.r_[d1, z], np.r_[z, r0], np.r_[z, r1]


def lib_wave(wave, inverse):
    """what to hand to pytorch_wavelets"""
    if isinstance(wave, str) and wave.startswith('odd:'):
        _, nm, fl = wave.split(':')
        h0, h1, g0, g1 = odd_bank(nm, fl == '1')
        return (g0, g1) if inverse else (h0, h1)
    if isinstance(wave, str) and wave.startswith('pair:'):
        a, b = W(wave)
        f = [a.rec_lo, a.rec_hi, b.rec_lo, b.rec_hi] if inverse else [a.dec_lo, a.dec_hi, b.dec_lo, b.dec_hi]
        return tuple(np.array(v, dtype=float) for v in f)
    if isinstance(wave, str) and wave in CUSTOM:
        c = CUSTOM[wave]
        ks = ('rec_lo', 'rec_hi') if inverse else ('dec_lo', 'dec_hi')
        return tuple(np.array(c[k], dtype=float) for k in ks)
    if isinstance(wave, list):
        return tuple(np.array(f, dtype=float) for f in wave)
    return wave


def filt_len(wave):
    if isinstance(wave, str) and wave.startswith('odd:'):
        return pywt.Wavelet(wave.split(':')[1]).dec_len + 1
    if isinstance(wave, str) and wave.startswith('pair:'):
        return max(w.dec_len for w in W(wave))
    if isinstance(wave, str):
        return W(wave).dec_len if wave in CUSTOM else pywt.Wavelet(wave).dec_len
    return len(wave[0])


def level_lengths(n, L, mode, J):
    """input length of each level 1..J (and the final lowpass length)"""
    out = []
    for _ in range(J):
        out.append(n)
        n = pywt.dwt_coeff_len(n, L, mode)
    return out, n


def per_short(n, L, J):
    """periodization: some level's even-extended input is shorter than the filter (known defect F1 region)"""
    for _ in range(J):
        ne = n + (n % 2)
        if ne < L:
            return True
        n = ne // 2
    return False


def reflect_short(n, L, J):
    """reflect: torch's reflect pad needs pad < size at every level; pad = ... ; true if any level raises legitimately"""
    for _ in range(J):
        outsize = pywt.dwt_coeff_len(n, L, 'reflect')
        p = 2 * (outsize - 1) - n + L
        if (p + 1) // 2 >= n or p // 2 >= n:
            return True
        n = outsize
    return False


def gain(mats):
    g = 1.0
    for m in mats:
        m = np.asarray(m)
        if m.size:
            g = max(g, float(np.abs(m.reshape(-1, m.shape[-1])).sum(axis=1).max()))
    return g


def basis_batch(shape):
    """one-hot inputs stacked along the batch axis: (n*B, C, ...)"""
    n = int(np.prod(shape))
    E = np.eye(n).reshape((n,) + tuple(shape))
    return E.reshape((n * shape[0],) + tuple(shape[1:])), n


def unbatch(arr, n, B):
    """real-torch output for basis_batch -> (out elements..., n) float matrix rows=elements"""
    a = arr.detach().numpy() if hasattr(arr, 'detach') else np.asarray(arr)
    a = a.reshape((n, B) + a.shape[1:])
    return np.moveaxis(a, 0, -1).reshape(-1, n)


def decide_bands(res, solver, impl_arrs, ref_rows_list, tau, names, max_sat=3):
    """impl_arrs: list of object arrays; ref_rows_list: list of lists of Poly rows (flattened same order).
    Returns list of (name, flat index, model) for sat answers."""
    sats = []
    for name, arr, rows in zip(names, impl_arrs, ref_rows_list):
        flat = arr.reshape(-1)
        if len(flat) != len(rows):
            raise ValueError('band %s: %d impl elements vs %d oracle rows' % (name, len(flat), len(rows)))
        for k, (p, r) in enumerate(zip(flat, rows)):
            d = p - r
            if not d.is_zero():
                res.nontrivial = True
            verdict, model = solver.decide_amplified(d, tau, label='%s[%d]' % (name, k))
            if verdict == 'sat':
                sats.append((name, k, model))
                if len(sats) >= max_sat:
                    return sats
            elif verdict != 'unsat':
                res.status = 'inconclusive'
                res.notes.append('solver answered %s on %s[%d]' % (verdict, name, k))
    return sats


def reflect_short_any(n, L, J):
    """some level's input is shorter than the filter (C01: reflect mode may raise there)"""
    for _ in range(J):
        if n < L:
            return True
        n = pywt.dwt_coeff_len(n, L, 'reflect')
    return False


# ---- calling contexts ---------------------------------------------------------------------------------

CTXS = ('nograd', 'transposed', 'chlast', 'reqgrad')


def torch_of(pw):
    return symtorch.shim() if pw is symtorch.sym() else symtorch.real_torch()


def _as_view(t, how):
    if how == 'transposed' and t.dim() >= 4:
        return t.transpose(-1, -2).contiguous().transpose(-1, -2)
    if how in ('chlast', 'transposed') and t.dim() == 3:
        return t.transpose(1, 2).contiguous().transpose(1, 2)
    if how == 'chlast' and t.dim() == 4:
        return t.permute(0, 2, 3, 1).contiguous().permute(0, 3, 1, 2)
    if how == 'chlast' and t.dim() == 5:
        return t.permute(0, 2, 3, 4, 1).contiguous().permute(0, 4, 1, 2, 3)
    return t


def _resolved(o):
    """symbolic copy: outputs of autograd Functions are opaque atoms on the tape; substitute their values"""
    from symtorch import autograd as AG
    if isinstance(o, T.Tensor):
        return T.Tensor(AG.resolve(o), dtype=o.dtype) if o.a.dtype == object else o
    if isinstance(o, (list, tuple)):
        return type(o)(_resolved(v) for v in o)
    return o


def call_ctx(pw, cfg, fn, ts):
    """run fn(ts) the way the configuration says the user calls the library: cfg['ctx'] in (None,) + CTXS.
    The transform is the same function of the values in every context."""
    how = cfg.get('ctx')
    if not how:
        return fn(ts)
    tt = torch_of(pw)
    if how == 'nograd':
        with tt.no_grad():
            return fn(ts)
    if how == 'reqgrad':
        out = fn([t.detach().clone().requires_grad_(True) if t is not None else None for t in ts])
        return _resolved(out) if pw is symtorch.sym() else out
    return fn([None if t is None else _as_view(t, how) for t in ts])


# ---- generic pieces for linear entry points ------------------------------------------------

def real_module(kind, cfg):
    return make_module(symtorch.real(), kind, cfg)


def make_module(pw, kind, cfg):
    w = lib_wave(cfg['wave'], kind.startswith('inv'))
    if kind == 'fwd1':
        m = pw.DWT1DForward(J=cfg['J'], wave=w, mode=cfg['mode'])
    elif kind == 'inv1':
        m = pw.DWT1DInverse(wave=w, mode=cfg['mode'])
    elif kind == 'fwd2':
        m = pw.DWTForward(J=cfg['J'], wave=w, mode=cfg['mode'])
    elif kind == 'inv2':
        m = pw.DWTInverse(wave=w, mode=cfg['mode'])
    else:
        raise KeyError(kind)
    scrub(pw, w)
    return m


def scrub(pw, w):
    """the caller re-uses its filter arrays after building the transform: a module must have copied what it needs"""
    if isinstance(w, tuple):
        for a in w:
            if isinstance(a, np.ndarray):
                a[...] = 0.0
        if pw is symtorch.sym():
            T.sync_np_aliases()


def in_shape(cfg):
    return (cfg['B'], cfg['C'], cfg['N']) if cfg['dim'] == 1 else (cfg['B'], cfg['C'], cfg['H'], cfg['W'])


def validate_linear(sym_arrs, real_tensors, ids, n, B):
    """max |symbolic coefficient - real torch operator entry| over all outputs"""
    dev = 0.0
    for a, r in zip(sym_arrs, real_tensors):
        M, c0 = core.lin_table(a, ids)
        Rm = unbatch(r, n, B)
        if M.shape != Rm.shape:
            return float('inf')
        if M.size:
            dev = max(dev, float(np.abs(M - Rm).max()), float(np.abs(c0).max()))
    return dev


def same_outcome(res, so, ro):
    """common handling of symbolic vs real outcomes; returns True if the harness may go on"""
    if so[0] == 'unsupported':
        res.status = 'inconclusive'; res.notes.append('symbolic engine: ' + so[1])
        return False
    if so[0] != ro[0] or (so[0] == 'raise' and so[1] != ro[1]):
        res.status = 'error'; res.trace = 'symbolic outcome %r differs from real torch outcome %r' % (core.brief(so), core.brief(ro))
        return False
    return True


def canary_ok(res, d, atom, tau):
    """the same kind of query with the residual perturbed by 1e-6*atom must be refuted by a model that really violates"""
    dd = d + P.Poly.var(int(atom)) * Fraction(1, 10 ** 6) * max(1, int(float(tau) * 10 ** 9))
    cst = smt.Stats(); cs = smt.Solver(stats=cst); cs.keep_sample = False
    v, m = cs.decide(dd, tau)
    if v == 'unknown':
        res.notes.append('canary query timed out (not counted)')
        return True
    if v != 'sat' or abs(dd.evalq({a: m.get(a, Fraction(0)) for a in dd.atoms()})) <= Fraction(tau) / 2:
        res.status = 'error'; res.trace = 'canary query was not refuted (%s)' % v
        return False
    return True


def pyramid_shapes(cfg):
    """shapes (per slice) of the pyramid PyWavelets produces for the configured signal size: (yl_shape, [yh_shapes finest first])"""
    if cfg['dim'] == 1:
        c = pywt.wavedec(np.zeros(cfg['N']), W(cfg['wave']), mode=cfg['mode'], level=cfg['J'])
        return c[0].shape, [b.shape for b in c[1:][::-1]]
    c = pywt.wavedec2(np.zeros((cfg['H'], cfg['W'])), W(cfg['wave']), mode=cfg['mode'], level=cfg['J'])
    return c[0].shape, [(3,) + b[0].shape for b in c[1:][::-1]]


def pywt_rec(cfg, yl, yh):
    """PyWavelets reconstruction of (yl, [yh finest first]) with leading batch axes allowed; None levels allowed"""
    if cfg['dim'] == 1:
        return pywt.waverec([yl] + [h for h in yh[::-1]], W(cfg['wave']), mode=cfg['mode'], axis=-1)
    co = [yl] + [None if h is None else tuple(np.take(h, i, axis=-3) for i in range(3)) for h in yh[::-1]]
    return pywt.waverec2(co, W(cfg['wave']), mode=cfg['mode'], axes=(-2, -1))
