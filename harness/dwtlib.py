"""Shared pieces of the DWT harnesses (C01 C02 C05 C10 C14 C17 C19)."""
import numpy as np
import pywt
from fractions import Fraction
import symtorch
from symtorch import poly as P, tensor as T
from vlib import core, oracles, smt

MODES = ['zero', 'symmetric', 'reflect', 'periodic', 'periodization']


def filt_len(wave):
    return pywt.Wavelet(wave).dec_len if isinstance(wave, str) else len(wave[0])


def level_lengths(n, L, mode, J):
    """input length of each level 1..J (and the final lowpass length)"""
    out = []
    for _ in range(J):
        out.append(n)
        n = pywt.dwt_coeff_len(n, L, mode)
    return out, n


def per_short(n, L, J):
    """periodization: some level's even-extended input is shorter than the filter (known defect F1 region)"""
    for _ in range(J):
        ne = n + (n % 2)
        if ne < L:
            return True
        n = ne // 2
    return False


def reflect_short(n, L, J):
    """reflect: torch's reflect pad needs pad < size at every level; pad = ... ; true if any level raises legitimately"""
    for _ in range(J):
        outsize = pywt.dwt_coeff_len(n, L, 'reflect')
        p = 2 * (outsize - 1) - n + L
        if (p + 1) // 2 >= n or p // 2 >= n:
            return True
        n = outsize
    return False


def gain(mats):
    g = 1.0
    for m in mats:
        m = np.asarray(m)
        if m.size:
            g = max(g, float(np.abs(m.reshape(-1, m.shape[-1])).sum(axis=1).max()))
    return g


def basis_batch(shape):
    """one-hot inputs stacked along the batch axis: (n*B, C, ...)"""
    n = int(np.prod(shape))
    E = np.eye(n).reshape((n,) + tuple(shape))
    return E.reshape((n * shape[0],) + tuple(shape[1:])), n


def unbatch(arr, n, B):
    """real-torch output for basis_batch -> (out elements..., n) float matrix rows=elements"""
    a = arr.detach().numpy() if hasattr(arr, 'detach') else np.asarray(arr)
    a = a.reshape((n, B) + a.shape[1:])
    return np.moveaxis(a, 0, -1).reshape(-1, n)


def decide_bands(res, solver, impl_arrs, ref_rows_list, tau, names, max_sat=3):
    """impl_arrs: list of object arrays; ref_rows_list: list of lists of Poly rows (flattened same order).
    Returns list of (name, flat index, model) for sat answers."""
    sats = []
    for name, arr, rows in zip(names, impl_arrs, ref_rows_list):
        flat = arr.reshape(-1)
        if len(flat) != len(rows):
            raise ValueError('band %s: %d impl elements vs %d oracle rows' % (name, len(flat), len(rows)))
        for k, (p, r) in enumerate(zip(flat, rows)):
            d = p - r
            if not d.is_zero():
                res.nontrivial = True
            verdict, model = solver.decide_amplified(d, tau, label='%s[%d]' % (name, k))
            if verdict == 'sat':
                sats.append((name, k, model))
                if len(sats) >= max_sat:
                    return sats
            elif verdict != 'unsat':
                res.status = 'inconclusive'
                res.notes.append('solver answered %s on %s[%d]' % (verdict, name, k))
    return sats


def reflect_short_any(n, L, J):
    """some level's input is shorter than the filter (C01: reflect mode may raise there)"""
    for _ in range(J):
        if n < L:
            return True
        n = pywt.dwt_coeff_len(n, L, 'reflect')
    return False


# ---- generic pieces for linear entry points ------------------------------------------------

def real_module(kind, cfg):
    return make_module(symtorch.real(), kind, cfg)


def make_module(pw, kind, cfg):
    w = cfg['wave']
    if isinstance(w, list):
        w = tuple(np.array(f, dtype=float) for f in w)
    if kind == 'fwd1':
        return pw.DWT1DForward(J=cfg['J'], wave=w, mode=cfg['mode'])
    if kind == 'inv1':
        return pw.DWT1DInverse(wave=w, mode=cfg['mode'])
    if kind == 'fwd2':
        return pw.DWTForward(J=cfg['J'], wave=w, mode=cfg['mode'])
    if kind == 'inv2':
        return pw.DWTInverse(wave=w, mode=cfg['mode'])
    raise KeyError(kind)


def in_shape(cfg):
    return (cfg['B'], cfg['C'], cfg['N']) if cfg['dim'] == 1 else (cfg['B'], cfg['C'], cfg['H'], cfg['W'])


def validate_linear(sym_arrs, real_tensors, ids, n, B):
    """max |symbolic coefficient - real torch operator entry| over all outputs"""
    dev = 0.0
    for a, r in zip(sym_arrs, real_tensors):
        M, c0 = core.lin_table(a, ids)
        Rm = unbatch(r, n, B)
        if M.shape != Rm.shape:
            return float('inf')
        if M.size:
            dev = max(dev, float(np.abs(M - Rm).max()), float(np.abs(c0).max()))
    return dev


def same_outcome(res, so, ro):
    """common handling of symbolic vs real outcomes; returns True if the harness may go on"""
    if so[0] == 'unsupported':
        res.status = 'inconclusive'; res.notes.append('symbolic engine: ' + so[1])
        return False
    if so[0] != ro[0] or (so[0] == 'raise' and so[1] != ro[1]):
        res.status = 'error'; res.trace = 'symbolic outcome %r differs from real torch outcome %r' % (so[:3], ro[:3])
        return False
    return True


def canary_ok(res, d, atom, tau):
    """the same kind of query with the residual perturbed by 1e-6*atom must be refuted by a model that really violates"""
    dd = d + P.Poly.var(int(atom)) * Fraction(1, 10 ** 6) * max(1, int(float(tau) * 10 ** 9))
    cst = smt.Stats(); cs = smt.Solver(stats=cst); cs.keep_sample = False
    v, m = cs.decide(dd, tau)
    if v == 'unknown':
        res.notes.append('canary query timed out (not counted)')
        return True
    if v != 'sat' or abs(dd.evalq({a: m.get(a, Fraction(0)) for a in dd.atoms()})) <= Fraction(tau) / 2:
        res.status = 'error'; res.trace = 'canary query was not refuted (%s)' % v
        return False
    return True


def pyramid_shapes(cfg):
    """shapes (per slice) of the pyramid PyWavelets produces for the configured signal size: (yl_shape, [yh_shapes finest first])"""
    if cfg['dim'] == 1:
        c = pywt.wavedec(np.zeros(cfg['N']), cfg['wave'], mode=cfg['mode'], level=cfg['J'])
        return c[0].shape, [b.shape for b in c[1:][::-1]]
    c = pywt.wavedec2(np.zeros((cfg['H'], cfg['W'])), cfg['wave'], mode=cfg['mode'], level=cfg['J'])
    return c[0].shape, [(3,) + b[0].shape for b in c[1:][::-1]]


def pywt_rec(cfg, yl, yh):
    """PyWavelets reconstruction of (yl, [yh finest first]) with leading batch axes allowed; None levels allowed"""
    if cfg['dim'] == 1:
        return pywt.waverec([yl] + [h for h in yh[::-1]], cfg['wave'], mode=cfg['mode'], axis=-1)
    co = [yl] + [None if h is None else tuple(np.take(h, i, axis=-3) for i in range(3)) for h in yh[::-1]]
    return pywt.waverec2(co, cfg['wave'], mode=cfg['mode'], axes=(-2, -1))
