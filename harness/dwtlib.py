"""Shared pieces of the DWT harnesses (C01 C02 C05 C10 C14 C17 C19)."""
import numpy as np
import pywt
from fractions import Fraction
import symtorch
from symtorch import poly as P, tensor as T
from vlib import core, oracles, smt

MODES = ['zero', 'symmetric', 'reflect', 'periodic', 'periodization']


def filt_len(wave):
    return pywt.Wavelet(wave).dec_len if isinstance(wave, str) else len(wave[0])


def level_lengths(n, L, mode, J):
    """input length of each level 1..J (and the final lowpass length)"""
    out = []
    for _ in range(J):
        out.append(n)
        n = pywt.dwt_coeff_len(n, L, mode)
    return out, n


def per_short(n, L, J):
    """periodization: some level's even-extended input is shorter than the filter (known defect F1 region)"""
    for _ in range(J):
        ne = n + (n % 2)
        if ne < L:
            return True
        n = ne // 2
    return False


def reflect_short(n, L, J):
    """reflect: torch's reflect pad needs pad < size at every level; pad = ... ; true if any level raises legitimately"""
    for _ in range(J):
        outsize = pywt.dwt_coeff_len(n, L, 'reflect')
        p = 2 * (outsize - 1) - n + L
        if (p + 1) // 2 >= n or p // 2 >= n:
            return True
        n = outsize
    return False


def gain(mats):
    g = 1.0
    for m in mats:
        m = np.asarray(m)
        if m.size:
            g = max(g, float(np.abs(m.reshape(-1, m.shape[-1])).sum(axis=1).max()))
    return g


def basis_batch(shape):
    """one-hot inputs stacked along the batch axis: (n*B, C, ...)"""
    n = int(np.prod(shape))
    E = np.eye(n).reshape((n,) + tuple(shape))
    return E.reshape((n * shape[0],) + tuple(shape[1:])), n


def unbatch(arr, n, B):
    """real-torch output for basis_batch -> (out elements..., n) float matrix rows=elements"""
    a = arr.detach().numpy() if hasattr(arr, 'detach') else np.asarray(arr)
    a = a.reshape((n, B) + a.shape[1:])
    return np.moveaxis(a, 0, -1).reshape(-1, n)


def decide_bands(res, solver, impl_arrs, ref_rows_list, tau, names, max_sat=3):
    """impl_arrs: list of object arrays; ref_rows_list: list of lists of Poly rows (flattened same order).
    Returns list of (name, flat index, model) for sat answers."""
    sats = []
    for name, arr, rows in zip(names, impl_arrs, ref_rows_list):
        flat = arr.reshape(-1)
        if len(flat) != len(rows):
            raise ValueError('band %s: %d impl elements vs %d oracle rows' % (name, len(flat), len(rows)))
        for k, (p, r) in enumerate(zip(flat, rows)):
            d = p - r
            if not d.is_zero():
                res.nontrivial = True
            verdict, model = solver.decide_amplified(d, tau, label='%s[%d]' % (name, k))
            if verdict == 'sat':
                sats.append((name, k, model))
                if len(sats) >= max_sat:
                    return sats
            elif verdict != 'unsat':
                res.status = 'inconclusive'
                res.notes.append('solver answered %s on %s[%d]' % (verdict, name, k))
    return sats


def reflect_short_any(n, L, J):
    """some level's input is shorter than the filter (C01: reflect mode may raise there)"""
    for _ in range(J):
        if n < L:
            return True
        n = pywt.dwt_coeff_len(n, L, 'reflect')
    return False
