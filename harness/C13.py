"""C13 — stationary WT: undecimated, shift-equivariant, equals pywt.swt2."""
import time
import numpy as np
import pywt
from fractions import Fraction
import symtorch
from symtorch import poly as P, tensor as T
from vlib import core, smt, lincheck
from harness import dwtlib as D

WAVES_Q = ['haar', 'db2', 'db3', 'db4', 'sym4', 'coif1', 'bior1.3', 'bior2.4', 'bior3.1', 'rbio1.3']
MODES = ['periodization', 'periodic']

META = {
    'functions': ['pytorch_wavelets.dwt.transform2d.SWTForward.__init__', 'pytorch_wavelets.dwt.transform2d.SWTForward.forward',
                  'pytorch_wavelets.dwt.lowlevel.afb2d_atrous', 'pytorch_wavelets.dwt.lowlevel.afb1d_atrous', 'pytorch_wavelets.dwt.lowlevel.mypad'],
    'explanation': 'C13: SWTForward is run on input atoms; every band element of every level minus the pywt.swt2 basis-response row must stay within '
                   'tau; the output must be a list of J tensors (N,C,4,H,W); the run on a circularly shifted arrangement of the same atoms must equal '
                   'the shifted outputs exactly (all shifts of the listed sizes).',
    'bounds': {'added_families': ['contexts nograd / reqgrad / transposed / chlast (db2 J=2 8x4 B=C=2)', 'same instance called on another size first (J=2 8x8 after 6x6; J=3 8x8 after 4x12)', 'J=3 8x8 with (B,C) = (1,2), (2,1)'],
               'quick': {'wavelets': WAVES_Q, 'modes': MODES, 'J': [1, 2, 3], 'sizes': 'J=1: 4x4,6x4,2x6; J=2: 4x4,8x4; J=3: 8x8 (3 wavelets)', 'shifts': 'all (s,t) for <=16 pixels, 3 shifts otherwise'},
               'thorough': {'wavelets': '40 discrete wavelets with L<=16', 'modes': MODES, 'J': [1, 2, 3], 'sizes': 'all H,W in multiples of 2^J up to 16'}},
    'outside': 'sizes that are not multiples of 2^J (PyWavelets refuses them), sizes above 16, J>3',
    'assumptions': ['real-arithmetic semantics', 'pywt.swt2(trim_approx=False) re-ordered finest-first is the reference'],
}


def configs(tier, seed):
    out = []
    waves = WAVES_Q if tier == 'quick' else [w for w in pywt.wavelist(kind='discrete') if pywt.Wavelet(w).dec_len <= 16][::2][:40]
    for w in waves:
        for mode in MODES:
            for J in (1, 2, 3):
                m = 2 ** J
                if tier == 'quick':
                    shapes = {1: [(4, 4), (6, 4), (2, 6)], 2: [(4, 4), (8, 4)], 3: [(8, 8)]}[J]
                    if J == 3 and w not in ('haar', 'db2', 'bior2.4'):
                        continue
                else:
                    shapes = [(a, b) for a in range(m, 17, m) for b in range(m, 17, m)]
                    shapes = [s for k, s in enumerate(shapes) if (k + seed + len(w)) % 3 == 0 or s[0] == s[1]]
                for (h, wd) in shapes:
                    out.append(dict(wave=w, mode=mode, J=J, H=h, W=wd, B=1, C=1))
    out.append(dict(wave='db2', mode='periodization', J=2, H=8, W=4, B=2, C=3))
    for ctx in D.CTXS:
        for mode in MODES:
            out.append(dict(wave='db2', mode=mode, J=2, H=8, W=4, B=2, C=2, ctx=ctx))
    for mode in MODES:
        out.append(dict(wave='db2', mode=mode, J=2, H=8, W=8, B=1, C=1, prelude_hw=[6, 6]))
        out.append(dict(wave='haar', mode=mode, J=3, H=8, W=8, B=1, C=1, prelude_hw=[4, 12]))
    # several channels / images at the third level (dilation 4)
    for mode in MODES:
        out.append(dict(wave='db2', mode=mode, J=3, H=8, W=8, B=1, C=2))
        out.append(dict(wave='haar', mode=mode, J=3, H=8, W=8, B=2, C=1))
    return out


def _case(cfg):
    B, C = cfg['B'], cfg['C']
    in_specs = [('x', (B, C, cfg['H'], cfg['W']))]

    def impl(pw, ts):
        SWT = pw.dwt.transform2d.SWTForward
        m = SWT(J=cfg['J'], wave=cfg['wave'], mode=cfg['mode'])
        if cfg.get('prelude_hw'):
            # the same instance has seen an image of another size before (accepted or rejected)
            try:
                m(D.torch_of(pw).zeros(1, 1, *cfg['prelude_hw'], dtype=ts[0].dtype))
            except (RuntimeError, ValueError, AssertionError):
                pass
        ys = D.call_ctx(pw, cfg, lambda a: m(a[0]), ts)
        if not isinstance(ys, (list, tuple)):
            raise TypeError('SWTForward did not return a list')
        return [('level%d' % (j + 1), y) for j, y in enumerate(ys)]

    def ref(arrs):
        co = pywt.swt2(arrs[0], cfg['wave'], level=cfg['J'], axes=(-2, -1), trim_approx=False)
        out = []
        for j in range(cfg['J']):
            cA, (cH, cV, cD) = co[cfg['J'] - 1 - j]
            out.append(np.stack([cA, cH, cV, cD], axis=2))
        return out
    return in_specs, impl, ref


def run_config(cfg):
    res = core.Result(cfg)
    core.begin()
    facts = dict(mode=cfg['mode'], J=cfg['J'], wave=cfg['wave'])
    in_specs, impl, ref = _case(cfg)
    info = lincheck.check_linear(res, cfg, facts, in_specs, impl, ref, what='SWT')
    if info is None or res.status != 'held':
        return res
    # shift-equivariance, exact: permute the same atoms
    H, W = cfg['H'], cfg['W']
    ids = info['ids'][0]
    base = [t.a for _, t in info['souts']]
    if H * W <= 16:
        shifts = [(s, t) for s in range(H) for t in range(W) if (s, t) != (0, 0)]
    else:
        shifts = [(1, 0), (0, 1), (H - 1, 3 % W)] if cfg.get('few_shifts', True) else [(1, 0), (0, 1), (1, 1), (H - 1, 3 % W), (H // 2, W // 2), (3 % H, W - 1)]
    tau = info['tau']
    solver = info['solver']
    for (s, t) in shifts[:6 if cfg['B'] * cfg['C'] > 1 else None]:
        with symtorch.symbolic():
            xa = np.empty(ids.shape, dtype=object)
            for idx in np.ndindex(*ids.shape):
                xa[idx] = P.Poly.var(int(ids[idx]))
            xr = T.Tensor(np.roll(xa, (s, t), axis=(-2, -1)), T.float64)
            t0 = time.time()
            so = core.outcome(lambda: impl(symtorch.sym(), [xr]))
            res.symexec_s += time.time() - t0
        if so[0] != 'ok':
            res.status = 'error'; res.trace = 'shifted run: %r' % (so[:3],); return res
        for (nm, y), b in zip(so[1], base):
            exp = np.roll(b, (s, t), axis=(-2, -1))
            sats = D.decide_bands(res, solver, [y.a], [list(exp.reshape(-1))], tau, ['shift(%d,%d) %s' % (s, t, nm)], max_sat=1)
            for name, k, model in sats:
                xv = core.model_array(model, ids)
                rt = symtorch.real_torch()
                a = impl(symtorch.real(), [rt.tensor(np.roll(xv, (s, t), axis=(-2, -1)))])
                b2 = impl(symtorch.real(), [rt.tensor(xv)])
                diff = max(float((p[1] - rt.roll(q[1], (s, t), (-2, -1))).abs().max()) for p, q in zip(a, b2))
                res.violations.append(dict(what='not shift-equivariant for shift (%d,%d): differs by %.3g' % (s, t, diff), facts=facts,
                                           replay=dict(kind='shift', x=xv.tolist(), shift=[s, t], tau=float(tau)), reproduced=diff > float(tau) / 2))
            if sats:
                res.status = 'violation'
                return res
    return res


def replay(payload):
    cfg = payload['config']
    core.begin()
    in_specs, impl, ref = _case(cfg)
    rp = payload['replay']
    if rp['kind'] == 'shift':
        rt = symtorch.real_torch()
        xv = np.array(rp['x']); s, t = rp['shift']
        a = impl(symtorch.real(), [rt.tensor(np.roll(xv, (s, t), axis=(-2, -1)))])
        b2 = impl(symtorch.real(), [rt.tensor(xv)])
        diff = max(float((p[1] - rt.roll(q[1], (s, t), (-2, -1))).abs().max()) for p, q in zip(a, b2))
        return dict(reproduced=diff > rp['tau'] / 2, detail=diff)
    return lincheck.replay_generic(payload, in_specs, impl, ref)
