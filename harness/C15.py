"""C15 — calls are pure: no argument mutation, no dependence on call history (threads: premises only)."""
import os
import pickle
import hashlib
import numpy as np
from fractions import Fraction
import symtorch
from symtorch import poly as P, tensor as T, autograd as AG
from symtorch.poly import Poly
from vlib import core, smt
from harness import dwtlib as D, dtlib as DT
from harness import C07

META = {
    'fresh_process_per_config': True,
    'functions': C07.META['functions'] + ['pytorch_wavelets.scatternet.layers.ScatLayer.forward', 'pytorch_wavelets.dtcwt.coeffs._load_from_file',
                                          'pytorch_wavelets.utils.symm_pad_1d', 'pytorch_wavelets.utils.reflect', 'pytorch_wavelets.dwt.lowlevel.mypad'],
    'explanation': 'C15: every configuration is an ordered sequence of calls (A, B) or (A1, A2, B) from a pool of module configurations / shapes / dtype settings, executed in a '
                   'fresh process. The baseline is B run alone in a forked child of the pristine process; then A.. and B are run in sequence (symbolic copy and real copy in '
                   'lockstep). Decided for every input of B: (a) after the call every argument tensor element is still its own atom, argument lists have the same elements, and '
                   'the write barrier saw no in-place write into an argument or a buffer; (b) module buffers/parameters are unchanged; (c) the outputs of B after the history equal '
                   'the baseline (exact identity of the symbolic outputs, z3 on any non-zero difference, replay on real torch with the same history); (d) a digest of every '
                   'module-level / function-attribute object of pytorch_wavelets is unchanged by the call, except that COEFF_CACHE may gain keys - so the state after any call '
                   'equals the state before it and histories of any length behave like the explored ones; (e) the outputs with inputs requiring grad equal those without; (f) for every pool entry the leaf gradients of a second back-propagation of the same graph (retain_graph) equal those of the first, term by term on the symbolic tape (z3 on any non-zero difference; replay: real torch back-propagated twice). '
                   'THREADS are not explored: the checked non-interference premises (calls write only freshly allocated tensors and read only arguments and immutable shared '
                   'state) imply schedule independence provided torch kernels and dict operations are thread-safe; real interleavings are outside this technique.',
    'bounds': {'added_families': ['extra targets dtf_odd (5x7), dtf_odd2 (3x3), dti_planar (planar real/imag storage), dti_planar_b2, swt_j2, d2_odd, d1_b2', 'same instance after an input of another size or precision (20 sequences)', 'uninitialised-memory atoms (torch.empty / new_empty / empty_like)'],
               'quick': {'pool': 15, 'sequences': 'all ordered pairs + triples ending in 4 targets (every 40th) + 13 same-instance sequences (short / other-shaped input first)'}, 'thorough': {'pool': 14, 'sequences': 'all ordered pairs + all triples ending in 4 targets'}},
    'outside': 'thread interleavings; sequences longer than 3 (covered only through the state-digest induction step); CUDA',
    'assumptions': ['real-arithmetic semantics', 'state reachable only through module globals, function attributes, class attributes and module buffers'],
}

POOL = [
    dict(id='d1_db3_sym', kind='dwt1f', wave='db3', mode='symmetric', J=2, N=13, B=1, C=2),
    dict(id='d1_coif1_sym', kind='dwt1f', wave='coif1', mode='symmetric', J=2, N=13, B=1, C=2),
    dict(id='d1_db3_per', kind='dwt1f', wave='db3', mode='periodic', J=2, N=13, B=1, C=2),
    dict(id='d1_deep', kind='dwt1f', wave='db4', mode='zero', J=4, N=64, B=1, C=1),
    dict(id='d1i_bior22_zero', kind='dwt1i', wave='bior2.2', mode='zero', J=2, N=13, B=1, C=2),
    dict(id='d2_db2_sym', kind='dwt2f', wave='db2', mode='symmetric', J=1, H=6, W=8, B=1, C=2),
    dict(id='d2_db2_per', kind='dwt2f', wave='db2', mode='periodic', J=1, H=6, W=8, B=1, C=2),
    dict(id='d2_db2_sym_f32', kind='dwt2f', wave='db2', mode='symmetric', J=1, H=6, W=8, B=1, C=2, f32=True),
    dict(id='d2i_db2_zero', kind='dwt2i', wave='db2', mode='zero', J=1, H=6, W=8, B=1, C=2),
    dict(id='d2_tuple4', kind='dwt2f', wave='db2', wave_row='bior1.3', mode='zero', J=1, H=6, W=8, B=1, C=1),
    dict(id='swt_db2', kind='swt', wave='db2', mode='periodization', J=1, H=4, W=8, B=1, C=2),
    dict(id='dtf_a', kind='dtf', biort='near_sym_a', qshift='qshift_a', J=2, H=6, W=8, B=1, C=1),
    dict(id='dtf_06', kind='dtf', biort='legall', qshift='qshift_06', J=2, H=6, W=8, B=1, C=1),
    dict(id='dti_a_skip', kind='dti', biort='near_sym_a', qshift='qshift_a', J=2, H=8, W=8, B=1, C=1, placeholder=[1, 0]),
    dict(id='dti_06', kind='dti', biort='legall', qshift='qshift_06', J=2, H=6, W=8, B=1, C=1),
]
# further targets: only run as [target, target] and after two unrelated calls (not crossed with the whole pool)
EXTRA = [
    dict(id='dtf_odd', kind='dtf', biort='near_sym_a', qshift='qshift_a', J=2, H=5, W=7, B=1, C=2),
    dict(id='dtf_odd2', kind='dtf', biort='near_sym_b', qshift='qshift_b', J=1, H=3, W=3, B=2, C=1),
    dict(id='dti_planar', kind='dti', biort='near_sym_a', qshift='qshift_a', J=2, H=8, W=8, B=1, C=1, view='ri_planar'),
    dict(id='dti_planar_b2', kind='dti', biort='near_sym_b', qshift='qshift_b', J=1, H=4, W=6, B=2, C=2, view='ri_planar'),
    dict(id='swt_j2', kind='swt', wave='db2', mode='periodization', J=2, H=8, W=8, B=1, C=1),
    dict(id='d2_odd', kind='dwt2f', wave='db2', mode='symmetric', J=2, H=7, W=9, B=2, C=2),
    dict(id='d1_b2', kind='dwt1f', wave='db2', mode='reflect', J=2, N=11, B=2, C=3),
]
BYID = {p['id']: p for p in POOL + EXTRA}
# (pool id of the target call, overrides giving the earlier call's input size on the same instance)
SAME = [('d1_db3_sym', dict(N=5, J=2)), ('d1_db3_sym', dict(N=40)), ('d1_coif1_sym', dict(N=7)), ('d2_db2_sym', dict(H=3, W=4)), ('d2_db2_per', dict(H=12, W=5)),
        ('swt_db2', dict(H=8, W=4)), ('dtf_a', dict(H=2, W=2)), ('dtf_a', dict(H=16, W=12)), ('dti_06', dict(H=4, W=4)), ('d2i_db2_zero', dict(H=9, W=5)),
        ('d1i_bior22_zero', dict(N=6)), ('d1_deep', dict(N=20)), ('d1_deep', dict(N=9)), ('swt_j2', dict(H=6, W=6)), ('swt_j2', dict(H=2, W=8)), ('dtf_odd', dict(H=2, W=2)),
        # ... or an input of another precision (rejected or not, it must not leave the instance changed)
        ('d1i_bior22_zero', dict(f32=True)), ('d2i_db2_zero', dict(f32=True)), ('d1_db3_sym', dict(f32=True)), ('d2_db2_sym', dict(f32=True)),
        ('swt_db2', dict(f32=True)), ('dtf_a', dict(f32=True)), ('dti_06', dict(f32=True))]


def configs(tier, seed):
    out = []
    for a in POOL:
        for b in POOL:
            if a['id'] != b['id']:
                out.append(dict(seq=[a['id'], b['id']]))
    ids = [p['id'] for p in POOL]
    targets = ['d1_coif1_sym', 'd2_db2_sym', 'dtf_06', 'dti_a_skip']
    k = 0
    for t in targets:
        for a1 in ids:
            for a2 in ids:
                if len({a1, a2, t}) == 3:
                    k += 1
                    if tier == 'thorough' and (k + seed) % 3 == 0 or tier == 'quick' and (k + seed) % 40 == 0:
                        out.append(dict(seq=[a1, a2, t]))
    for p in POOL + EXTRA:
        out.append(dict(seq=[p['id'], p['id']]))
    for p in EXTRA:
        out.append(dict(seq=['d1_db3_sym', 'dtf_a', p['id']]))
    # the SAME module instance first sees a short / differently shaped input, then the target input
    for (mid, alt) in SAME:
        out.append(dict(seq=[mid], same_instance=alt))
    return out


# ---- one call ----------------------------------------------------------------------------------

def _tt(pw):
    return C07._tt(pw)


def _specs(c):
    return C07._slice_specs(c, c['B'], c['C'])


def _make_module(pw, c):
    tt = _tt(pw)
    prev = tt.get_default_dtype()
    try:
        tt.set_default_dtype(tt.float32 if c.get('f32') else tt.float64)
        if c.get('wave_row'):
            import pywt
            wc = pywt.Wavelet(c['wave']); wr = pywt.Wavelet(c['wave_row'])
            return pw.DWTForward(J=c['J'], wave=(np.array(wc.dec_lo), np.array(wc.dec_hi), np.array(wr.dec_lo), np.array(wr.dec_hi)), mode=c['mode'])
        return C07._module(pw, c)
    finally:
        tt.set_default_dtype(prev)


def _build_args(pw, c, ts):
    """argument object exactly as a user would pass it (tensor, or (yl, [yh...]) with placeholders)"""
    tt = _tt(pw)
    if c['kind'] in ('dwt1f', 'dwt2f', 'swt', 'dtf'):
        return ts[0]
    hs = list(ts[1:])
    if c.get('view') == 'ri_planar':
        # the caller keeps real and imaginary planes in separate blocks of memory and hands over a (..., 2) view of them
        planar = []
        for j, h in enumerate(hs):
            base = tt.stack((h[..., 0], h[..., 1]), 0)
            if hasattr(base, '_origin'):
                base._origin = 'arg:yh%d(planar)' % (j + 1)
            planar.append(base.permute(1, 2, 3, 4, 5, 0))
        hs = planar
    if c.get('placeholder'):
        hs = [tt.zeros([], dtype=ts[0].dtype) if c['placeholder'][j] else h for j, h in enumerate(hs)]
    return (ts[0], hs)


def _invoke(m, c, args):
    o = m(args)
    if c['kind'] in ('dwt1f', 'dwt2f', 'dtf'):
        return [o[0]] + list(o[1])
    if c['kind'] == 'swt':
        return list(o)
    return [o]


def _cast(tt, c, t):
    return t.float() if c.get('f32') else t


def _attrs(m):
    """plain (non-tensor) attributes of a module instance: its construction parameters"""
    out = {}
    for k, v in vars(m).items():
        if k.startswith('_') or k == 'training':
            continue
        if isinstance(v, (int, float, str, bool, type(None), list, tuple)):
            out[k] = repr(v)
    return out


def _sym_call(c, requires_grad=False, nograd=False, inst=None):
    """-> (outputs as object arrays, ids, purity report)"""
    if nograd:
        with symtorch.shim().no_grad():
            return _sym_call(c, requires_grad=requires_grad, inst=inst)
    spw = symtorch.sym(); st = symtorch.shim()
    tens = []; ids = []
    for nm, s in _specs(c):
        t, i = core.symin(tuple(s), name=nm, dtype=st.float32 if c.get('f32') else st.float64, requires_grad=requires_grad)
        tens.append(t); ids.append(i)
    m = inst if inst is not None else _make_module(spw, c)
    bufs_before = {n: b.a.copy() for n, b in list(m.named_buffers()) + list(m.named_parameters())}
    attrs_before = _attrs(m)
    args = _build_args(spw, c, tens)
    lists_before = [(args[1], list(args[1]))] if isinstance(args, tuple) else []
    passed = [args] if not isinstance(args, tuple) else [args[0]] + [h for h in args[1] if isinstance(h, T.Tensor)]
    names = [nm for nm, _ in _specs(c)]
    watch = list(zip(tens, names)) + [(t, 'passed#%d' % i) for i, t in enumerate(passed) if all(t is not u for u in tens)]
    snap = [t.a.copy() for t, _ in watch]
    T.STATE.writes.clear()
    outs = _invoke(m, c, args)
    report = []
    for (t, nm), s0 in zip(watch, snap):
        if t.a.shape != s0.shape or (t.a.dtype == object and any(not p.same(q) for p, q in zip(t.a.reshape(-1), s0.reshape(-1)))):
            report.append('argument tensor %s was modified' % nm)
    for lst, before in lists_before:
        if len(lst) != len(before) or any(x is not y for x, y in zip(lst, before)):
            report.append('argument list was modified (entries %s)' % [type(x).__name__ for x in lst])
    for org, op in T.STATE.writes:
        if org and (org.startswith('arg:') or org.startswith('buffer:')):
            report.append('in-place %s into %s' % (op, org))
    if _attrs(m) != attrs_before:
        ch = [k for k in attrs_before if _attrs(m).get(k) != attrs_before[k]]
        report.append('module attribute(s) %s changed by the call' % ch)
    for n, b in list(m.named_buffers()) + list(m.named_parameters()):
        b0 = bufs_before.get(n)
        if b0 is None or b0.shape != b.a.shape or any(not p.same(q) for p, q in zip(b.a.reshape(-1), b0.reshape(-1))):
            report.append('buffer %s changed' % n)
    res = [AG.resolve(o) if (isinstance(o, T.Tensor) and o.a.dtype == object) else None for o in outs]
    return res, ids, report


def _real_call(c, xs, inst=None):
    rt = symtorch.real_torch()
    m = inst if inst is not None else _make_module(symtorch.real(), c)
    ts = [rt.tensor(x, dtype=rt.float32 if c.get('f32') else rt.float64) for x in xs]
    args = _build_args(symtorch.real(), c, ts)
    before = list(args[1]) if isinstance(args, tuple) else None
    passed = [args] if not isinstance(args, tuple) else [args[0]] + [h for h in args[1] if isinstance(h, rt.Tensor)]
    watch = list(ts) + [t for t in passed if all(t is not u for u in ts)]
    snap = [t.clone() for t in watch]
    outs = _invoke(m, c, args)
    rep = []
    if before is not None and (len(before) != len(args[1]) or any(x is not y for x, y in zip(before, args[1]))):
        rep.append('argument list was modified')
    if any(not rt.equal(a, b) for a, b in zip(watch, snap)):
        rep.append('argument tensor was modified')
    return [o.detach().double().numpy() for o in outs], rep


def _sym_grad_twice(c):
    """the same autograd graph back-propagated twice with the same cotangents -> (leaf gradients 1st, leaf gradients 2nd), each {atom: Poly}"""
    spw = symtorch.sym(); st = symtorch.shim()
    tens = []
    for nm, s in _specs(c):
        t, _ = core.symin(tuple(s), name=nm, dtype=st.float64, requires_grad=True)
        tens.append(t)
    m = _make_module(spw, c)
    outs = [o for o in _invoke(m, c, _build_args(spw, c, tens)) if isinstance(o, T.Tensor) and o.a.dtype == object and o.requires_grad]
    cots = [core.symin(tuple(o.shape), kind='cot', name='g')[0] for o in outs]
    g1 = AG.backprop(outs, cots)
    g2 = AG.backprop(outs, cots)
    return g1, g2


def _real_grad_twice(c, xs):
    rt = symtorch.real_torch()
    m = _make_module(symtorch.real(), c)
    ts = [rt.tensor(x, dtype=rt.float64, requires_grad=True) for x in xs]
    outs = [o for o in _invoke(m, c, _build_args(symtorch.real(), c, ts)) if isinstance(o, rt.Tensor) and o.requires_grad]
    rng = np.random.default_rng(5)
    gv = [rt.tensor(rng.uniform(-1, 1, size=tuple(o.shape))) for o in outs]
    a = rt.autograd.grad(outs, ts, gv, retain_graph=True, allow_unused=True)
    b = rt.autograd.grad(outs, ts, gv, retain_graph=True, allow_unused=True)
    d = 0.0
    for x, y in zip(a, b):
        if (x is None) != (y is None):
            return float('inf')
        if x is not None and x.numel():
            d = max(d, float((x - y).abs().max()))
    return d


# ---- module-level state digest --------------------------------------------------------------------

def _digest_obj(o, depth=0):
    if depth > 6:
        return 'deep'
    if isinstance(o, np.ndarray):
        return 'nd:' + hashlib.sha1(np.ascontiguousarray(o).tobytes()).hexdigest() + str(o.shape) if o.dtype != object else 'ndobj:%s' % (o.shape,)
    if isinstance(o, T.Tensor):
        return 'T:%s:%s' % (tuple(o.a.shape), hashlib.sha1(repr([repr(p) for p in o.a.reshape(-1)]).encode()).hexdigest() if o.a.dtype == object else o.a.tobytes().hex()[:40])
    if isinstance(o, dict):
        return 'd{' + ','.join('%r:%s' % (k, _digest_obj(v, depth + 1)) for k, v in sorted(o.items(), key=lambda kv: repr(kv[0]))) + '}'
    if isinstance(o, (list, tuple, set, frozenset)):
        return 'l[' + ','.join(_digest_obj(v, depth + 1) for v in (sorted(o, key=repr) if isinstance(o, (set, frozenset)) else o)) + ']'
    if isinstance(o, (int, float, str, bool, type(None), Fraction)):
        return repr(o)
    return 'obj:' + type(o).__name__


def state_digest():
    """{qualified name: digest} of mutable module-level / function-attribute / class-attribute state of the symbolic copy"""
    import types
    out = {}
    for mn, mod in symtorch._SYM_PW.items():
        for k, v in list(vars(mod).items()):
            if k.startswith('__'):
                continue
            if k == 'COEFF_CACHE' and isinstance(v, dict):
                for ck, cv in v.items():
                    out['%s.COEFF_CACHE[%s]' % (mn, ck)] = _digest_obj(cv)
            elif isinstance(v, (dict, list, set, np.ndarray, T.Tensor)):
                out['%s.%s' % (mn, k)] = _digest_obj(v)
            elif isinstance(v, types.FunctionType) and getattr(v, '__module__', None) == mn:
                for ak, av in list(vars(v).items()):
                    if not ak.startswith('__'):
                        out['%s.%s.%s' % (mn, k, ak)] = _digest_obj(av)
            elif isinstance(v, type) and getattr(v, '__module__', None) == mn:
                for ak, av in list(vars(v).items()):
                    if not ak.startswith('__') and isinstance(av, (dict, list, set, np.ndarray, T.Tensor)):
                        out['%s.%s.%s' % (mn, k, ak)] = _digest_obj(av)
    return out


def _digest_delta(a, b):
    bad = []
    for k in sorted(set(a) | set(b)):
        if a.get(k) == b.get(k):
            continue
        if 'COEFF_CACHE[' in k and k not in a:
            continue        # the table cache may gain entries (whose values are checked against the files by C18)
        bad.append(k)
    return bad


def _fork_eval(fn):
    r, w = os.pipe()
    pid = os.fork()
    if pid == 0:
        try:
            os.close(r)
            try:
                data = pickle.dumps(('ok', fn()))
            except BaseException as e:  # noqa
                import traceback
                data = pickle.dumps(('err', traceback.format_exc()[-1500:]))
            with os.fdopen(w, 'wb') as f:
                f.write(data)
        finally:
            os._exit(0)
    os.close(w)
    with os.fdopen(r, 'rb') as f:
        data = f.read()
    os.waitpid(pid, 0)
    return pickle.loads(data)


def run_config(cfg):
    res = core.Result(cfg)
    core.begin()
    seq = [BYID[i] for i in cfg['seq']]
    target = seq[-1]
    facts = dict(seq=cfg['seq'], target=target['id'])
    rng = np.random.default_rng(21)
    xs = [rng.uniform(-1, 1, size=s) for _, s in _specs(target)]

    def baseline():
        core.begin()
        with symtorch.symbolic():
            o = core.outcome(lambda: _sym_call(target))
        r = core.outcome(lambda: _real_call(target, xs))
        if o[0] == 'ok':
            return ('ok', [None if a is None else [(dict(p.t)) for p in a.reshape(-1)] for a in o[1][0]], [None if a is None else a.shape for a in o[1][0]]), r
        return o[:3], r
    bl = _fork_eval(baseline)
    if bl[0] != 'ok':
        res.status = 'error'; res.trace = 'baseline child failed: %s' % (bl[1],); return res
    (b_sym, b_real) = bl[1]
    # history on the same instance: one module object (per copy) is called on another input first
    inst_s = inst_r = None
    if cfg.get('same_instance'):
        alt = dict(target, **cfg['same_instance'])
        core.begin()
        with symtorch.symbolic():
            inst_s = _make_module(symtorch.sym(), target)
            ho = core.outcome(lambda: _sym_call(alt, inst=inst_s))
        inst_r = _make_module(symtorch.real(), target)
        hx = [rng.uniform(-1, 1, size=s_) for _, s_ in _specs(alt)]
        hr = core.outcome(lambda: _real_call(alt, hx, inst=inst_r))
        if ho[0] == 'unsupported':
            res.status = 'inconclusive'; res.notes.append('symbolic engine: ' + ho[1]); return res
        if ho[0] == 'ok' and ho[1][2]:
            res.status = 'violation'
            res.violations.append(dict(what='call is not pure: %s' % '; '.join(sorted(set(ho[1][2]))), facts=dict(facts, purity=True), replay=dict(kind='purity'), reproduced=True)); return res
    # history
    for c in seq[:-1]:
        core.begin()
        with symtorch.symbolic():
            ho = core.outcome(lambda: _sym_call(c))
        hx = [rng.uniform(-1, 1, size=s) for _, s in _specs(c)]
        hr = core.outcome(lambda: _real_call(c, hx))
        if ho[0] == 'unsupported':
            res.status = 'inconclusive'; res.notes.append('symbolic engine: ' + ho[1]); return res
    # the call under test
    core.begin()
    d0 = state_digest()
    with symtorch.symbolic():
        so = core.outcome(lambda: _sym_call(target, inst=inst_s))
    d1 = state_digest()
    ro = core.outcome(lambda: _real_call(target, xs, inst=inst_r))
    res.funcs = sorted(T.STATE.funcs_entered)
    if so[0] == 'unsupported':
        res.status = 'inconclusive'; res.notes.append('symbolic engine: ' + so[1]); return res
    if so[0] != ro[0]:
        res.status = 'error'; res.trace = 'symbolic outcome %r differs from real torch outcome %r' % (core.brief(so), core.brief(ro)); return res
    if (so[0] == 'ok') != (b_sym[0] == 'ok') or (b_real[0] != ro[0]):
        res.status = 'violation'
        res.violations.append(dict(what='after the history %s the call %s, alone in a fresh process %s' % (cfg['seq'][:-1], so[:2] if so[0] != 'ok' else 'returns', b_sym[:2] if b_sym[0] != 'ok' else 'returns'),
                                   facts=facts, replay=dict(kind='history'), reproduced=b_real[0] != ro[0])); return res
    if so[0] != 'ok':
        res.status = 'skipped'; res.notes.append('call raises in both settings'); return res
    outs, ids, report = so[1]
    routs, rreport = ro[1]
    res.nontrivial = True
    # (a0) never-written memory (torch.empty & co) must not reach a result: its contents depend on the allocator's history
    hit = symtorch.uninit_atoms([p for a in outs if a is not None for p in a.reshape(-1)])
    if hit:
        with symtorch.poison_uninit():
            po = core.outcome(lambda: _real_call(target, xs, inst=None))
        bad = po[0] == 'ok' and any(not np.isfinite(r).all() for r in po[1][0])
        res.status = 'violation'
        res.violations.append(dict(what='output of %s depends on uninitialised memory (torch.empty / new_empty contents, %d elements): the result depends on the allocator history' % (target['id'], len(hit)),
                                   facts=dict(facts, uninitialised=True), replay=dict(kind='uninit'), reproduced=bool(bad))); return res
    # (a), (b) purity
    if report or rreport:
        res.status = 'violation'
        res.violations.append(dict(what='call is not pure: %s' % '; '.join(sorted(set(report + rreport))), facts=dict(facts, purity=True), replay=dict(kind='purity'),
                                   reproduced=bool(rreport) or any('buffer' in r or 'in-place' in r for r in report))); return res
    # (d) state digest
    bad = _digest_delta(d0, d1)
    if bad:
        res.status = 'violation'
        res.violations.append(dict(what='module-level state changed by the call: %s' % bad[:4], facts=dict(facts, state=True), replay=dict(kind='state', keys=bad[:4]), reproduced=True)); return res
    # engine validation
    env = P.AtomEnv()
    for i, x in zip(ids, xs):
        xv = x.astype(np.float32).astype(np.float64) if target.get('f32') else x
        for a, v in zip(i.reshape(-1), xv.reshape(-1)):
            env[int(a)] = float(v)
    dev = 0.0
    for a, r in zip(outs, routs):
        if a is None:
            continue
        sv = np.array([p.evalf(env) for p in a.reshape(-1)])
        dev = max(dev, float(np.abs(sv - r.reshape(-1)).max()) if sv.size else 0.0)
    res.validated = dev
    if dev > (1e-4 if target.get('f32') else 1e-9):
        res.status = 'error'; res.trace = 'symbolic values deviate from real torch by %g' % dev; return res
    # (c) history independence
    st = smt.Stats(); solver = smt.Solver(stats=st)
    tau = Fraction(1, 10 ** 10)
    _, bforms, bshapes = b_sym
    for k, (a, bf, bs) in enumerate(zip(outs, bforms, bshapes)):
        if a is None:
            continue
        if tuple(a.shape) != tuple(bs):
            res.status = 'violation'
            res.violations.append(dict(what='output %d has shape %s after the history, %s in a fresh process' % (k, a.shape, bs), facts=facts, replay=dict(kind='history'),
                                       reproduced=tuple(routs[k].shape) != tuple(b_real[1][0][k].shape))); return res
        base = [Poly(t) for t in bf]
        sats = D.decide_bands(res, solver, [a], [base], tau, ['after_history_vs_fresh_%d' % k], max_sat=1)
        for name, e, model in sats:
            diff = abs(float(routs[k].reshape(-1)[e]) - float(b_real[1][0][k].reshape(-1)[e]))
            res.violations.append(dict(what='output %d[%d] of %s depends on the call history %s: differs from the fresh-process result by %.3g' % (k, e, target['id'], cfg['seq'][:-1], diff),
                                       facts=facts, replay=dict(kind='history', out=k, e=int(e)), reproduced=diff > 1e-9))
            res.stats = st
            res.status = 'violation'
            return res
    # real outputs equal the fresh-process real outputs at the sample point (bitwise determinism of the same computation is expected)
    for k, (r, br) in enumerate(zip(routs, b_real[1][0])):
        if r.shape != br.shape or (r.size and np.abs(r - br).max() > 1e-9):
            res.status = 'violation'
            res.violations.append(dict(what='real-torch output %d after the history differs from the fresh-process output' % k, facts=facts, replay=dict(kind='history'), reproduced=True)); return res
    # (e) autograd recording on/off
    core.begin()
    with symtorch.symbolic():
        go = core.outcome(lambda: _sym_call(target, requires_grad=True))
    if go[0] == 'ok':
        for k, (a, b) in enumerate(zip(outs, go[1][0])):
            if a is None or b is None:
                continue
            sats = D.decide_bands(res, solver, [b], [list(a.reshape(-1))], tau, ['grad_on_vs_off_%d' % k], max_sat=1)
            if sats:
                res.status = 'violation'
                res.violations.append(dict(what='output %d differs when the inputs require grad' % k, facts=dict(facts, autograd=True), replay=dict(kind='autograd'), reproduced=True))
                break
    elif go[0] == 'raise':
        res.status = 'violation'
        res.violations.append(dict(what='call raises %s when inputs require grad' % go[1], facts=dict(facts, autograd=True), replay=dict(kind='autograd'), reproduced=True))
    # (e') autograd globally disabled (torch.no_grad())
    if res.status == 'held':
        core.begin()
        with symtorch.symbolic():
            no = core.outcome(lambda: _sym_call(target, nograd=True))
        rt = symtorch.real_torch()
        with rt.no_grad():
            rno = core.outcome(lambda: _real_call(target, xs))
        if no[0] == 'unsupported':
            res.status = 'inconclusive'; res.notes.append('symbolic engine (no_grad): ' + no[1])
        elif no[0] != rno[0]:
            res.status = 'error'; res.trace = 'no_grad: symbolic outcome %r differs from real %r' % (core.brief(no), core.brief(rno))
        elif no[0] == 'raise':
            res.status = 'violation'
            res.violations.append(dict(what='call raises %s under torch.no_grad()' % no[1], facts=dict(facts, autograd=True), replay=dict(kind='autograd'), reproduced=True))
        else:
            for k, (a, b) in enumerate(zip(outs, no[1][0])):
                if a is None or b is None:
                    continue
                if tuple(a.shape) != tuple(b.shape):
                    res.status = 'violation'
                    res.violations.append(dict(what='output %d has shape %s under torch.no_grad(), %s otherwise' % (k, b.shape, a.shape), facts=dict(facts, autograd=True),
                                               replay=dict(kind='autograd'), reproduced=tuple(rno[1][0][k].shape) != tuple(routs[k].shape)))
                    break
                sats = D.decide_bands(res, solver, [b], [list(a.reshape(-1))], tau, ['no_grad_vs_grad_%d' % k], max_sat=1)
                if sats:
                    diff = float(np.abs(rno[1][0][k] - routs[k]).max())
                    res.status = 'violation'
                    res.violations.append(dict(what='output %d differs under torch.no_grad() (by %.3g at the sample point)' % (k, diff), facts=dict(facts, autograd=True),
                                               replay=dict(kind='autograd'), reproduced=diff > 1e-9))
                    break
    # (f) the gradients of the call do not depend on history either: the same graph back-propagated a second time (retain_graph=True) gives the same gradients
    if res.status == 'held' and not target.get('f32') and len(cfg['seq']) == 2 and cfg['seq'][0] == cfg['seq'][1]:
        core.begin()
        with symtorch.symbolic():
            fo = core.outcome(lambda: _sym_grad_twice(target))
        rfo = core.outcome(lambda: _real_grad_twice(target, xs))
        if fo[0] == 'unsupported':
            res.status = 'inconclusive'; res.notes.append('symbolic engine (backward twice): ' + fo[1])
        elif fo[0] != rfo[0]:
            res.status = 'error'; res.trace = 'backward twice: symbolic outcome %r differs from real %r' % (core.brief(fo), core.brief(rfo))
        elif fo[0] == 'raise':
            res.status = 'violation'
            res.violations.append(dict(what='back-propagating a second time through the same graph raises %s' % (fo[1],), facts=dict(facts, autograd=True, twice=True), replay=dict(kind='twice'), reproduced=True))
        else:
            g1, g2 = fo[1]
            for atom in sorted(set(g1) | set(g2)):
                d = g1.get(atom, P.ZERO) - g2.get(atom, P.ZERO)
                if d.is_zero():
                    st.trivial_zero += 1
                    continue
                res.nontrivial = True
                verdict, model = solver.decide_amplified(d, tau, label='grad_twice[%s]' % (atom,))
                if verdict == 'sat':
                    res.status = 'violation'
                    res.violations.append(dict(what='the gradient of input atom %s differs between the first and the second back-propagation of the same graph (real torch: by %.3g)' % (atom, rfo[1]),
                                               facts=dict(facts, autograd=True, twice=True), replay=dict(kind='twice'), reproduced=rfo[1] > 1e-9))
                    break
                if verdict != 'unsat':
                    res.status = 'inconclusive'; res.notes.append('solver answered %s on grad_twice[%s]' % (verdict, atom)); break
    res.stats = st
    return res


def replay(payload):
    cfg = payload['config']
    core.begin()
    r = run_config(cfg)
    return dict(reproduced=r.status == 'violation', detail=[v['what'] for v in r.violations])
