"""C08 — scattering layers compute the defined DTCWT scattering coefficients."""
import time
import numpy as np
from fractions import Fraction
import symtorch
from symtorch import poly as P, tensor as T
from symtorch.poly import Poly
from vlib import core, smt
from harness import dtlib as DT, scatlib as S

BIORTS = ['near_sym_a', 'near_sym_b', 'near_sym_b_bp', 'antonini', 'legall']

META = {
    'functions': ['pytorch_wavelets.scatternet.layers.ScatLayer.forward', 'pytorch_wavelets.scatternet.layers.ScatLayerj2.forward',
                  'pytorch_wavelets.scatternet.lowlevel.ScatLayerj1_f.forward', 'pytorch_wavelets.scatternet.lowlevel.ScatLayerj1_rot_f.forward',
                  'pytorch_wavelets.scatternet.lowlevel.ScatLayerj2_f.forward', 'pytorch_wavelets.scatternet.lowlevel.ScatLayerj2_rot_f.forward',
                  'pytorch_wavelets.dtcwt.transform_funcs.fwd_j1', 'pytorch_wavelets.dtcwt.transform_funcs.fwd_j1_rot', 'pytorch_wavelets.dtcwt.transform_funcs.fwd_j2plus',
                  'pytorch_wavelets.dtcwt.transform_funcs.fwd_j2plus_rot'],
    'explanation': 'C08: the layer is run on input atoms; the engine purifies every sqrt, so each output element is either a linear form (lowpass channels) or sqrt(q) + c with q '
                   'an exact polynomial. Decided per element, for every input: lowpass channels equal the 2x2 average of the reference lowpass (linear query); for magnitude channels '
                   'c = -b exactly and q equals re_ref^2 + im_ref^2 (+ colour sum) + b^2 composed from the basis responses of dtcwt.Transform2d (polynomial tolerance query with the '
                   'rounding lemma, |q_impl - q_ref| <= 1e-10 on the box, which bounds the magnitude error by 1e-10/(2b), resp. 1e-5 for b = 0); second order compositionally: every '
                   'inner magnitude atom is matched to its reference position, and the outer stage (level-1 transform of the inner magnitudes, pooling, second magnitudes) is compared '
                   'with the reference operator applied to those same atoms; band-major channel layout and the documented output shape are checked concretely; non-negativity: '
                   'r >= 0, r^2 = s + b^2, s >= -1e-10 => r - b >= -1e-6 (small QF_NRA query per configuration; exact non-negativity follows from q being a sum of squares + b^2).',
    'bounds': {'added_families': ['first order with 17 and 33 channels (2x2, 2x4)', 'second order 7x8 and C=2 8x8'],
               'quick': {'first order': {'biort': BIORTS, 'magbias': [0, 0.01, 1], 'colour': 'on (C=3) / off (C=1,2)', 'sizes': '(4,4),(6,6),(4,6),(5,5),(3,4),(2,2),(7,6)'},
                         'second order': {'filters': '(near_sym_a,qshift_a|06|c), (near_sym_b_bp,qshift_b_bp)', 'sizes': '8x8 (+ 6x7 -> extended)', 'colour': 'off'}},
               'thorough': {'first order': 'sizes up to 10x10, all 5 families x 3 biases', 'second order': '3 filter pairs, 8x8, 8x16, 5x9'}},
    'outside': 'second-order colour combination (engine-validated only); sizes beyond the lists; symbolic magbias; float rounding',
    'assumptions': ['real-arithmetic semantics', 'the second-order band order (o2*6+o1) is taken from the layer\'s documentation/code as the definition',
                    'inner magnitudes are bounded below by the bias (established by the first-order check)'],
}


def configs(tier, seed):
    out = []
    sizes = [(4, 4), (6, 6), (4, 6), (5, 5), (3, 4), (2, 2), (7, 6)] if tier == 'quick' else [(4, 4), (6, 6), (4, 6), (5, 5), (3, 4), (2, 2), (7, 6), (8, 8), (10, 6), (9, 9)]
    for bi, b in enumerate(BIORTS):
        for mi, mb in enumerate([0.0, 0.01, 1.0]):
            for si, (h, w) in enumerate(sizes):
                if tier == 'quick' and (bi + mi + si + seed) % 3 and (h, w) not in ((4, 4), (5, 5)):
                    continue
                if b in ('near_sym_b', 'near_sym_b_bp') and h * w > 36 and tier == 'quick':
                    continue
                out.append(dict(layer='j1', biort=b, magbias=mb, colour=False, H=h, W=w, C=1))
        out.append(dict(layer='j1', biort=b, magbias=0.01, colour=True, H=4, W=4, C=3))
        out.append(dict(layer='j1', biort=b, magbias=0.01, colour=False, H=4, W=6, C=2))
    # many channels (reshapes that fold channels into the batch)
    out.append(dict(layer='j1', biort='near_sym_a', magbias=0.01, colour=False, H=2, W=2, C=17))
    out.append(dict(layer='j1', biort='near_sym_b_bp', magbias=0.01, colour=False, H=2, W=4, C=33))
    j2 = [('near_sym_a', 'qshift_a'), ('near_sym_b_bp', 'qshift_b_bp')] + ([('near_sym_b', 'qshift_b')] if tier == 'thorough' else [])
    for (b, q) in j2:
        out.append(dict(layer='j2', biort=b, qshift=q, magbias=0.01, colour=False, H=8, W=8, C=1))
        out.append(dict(layer='j2', biort=b, qshift=q, magbias=0.0, colour=False, H=8, W=8, C=1))
    for q in (['qshift_06', 'qshift_c'] if tier == 'quick' else ['qshift_06', 'qshift_b', 'qshift_c', 'qshift_d']):
        out.append(dict(layer='j2', biort='near_sym_a', qshift=q, magbias=0.01, colour=False, H=8, W=8, C=1))
    out.append(dict(layer='j2', biort='near_sym_a', qshift='qshift_a', magbias=0.01, colour=False, H=6, W=7, C=1))
    out.append(dict(layer='j2', biort='near_sym_a', qshift='qshift_a', magbias=0.01, colour=False, H=2, W=8, C=1))
    out.append(dict(layer='j2', biort='near_sym_a', qshift='qshift_a', magbias=0.01, colour=False, H=7, W=8, C=1))
    out.append(dict(layer='j2', biort='near_sym_a', qshift='qshift_a', magbias=0.01, colour=False, H=8, W=8, C=2))
    out.append(dict(layer='j2', biort='near_sym_a', qshift='qshift_a', magbias=0.01, colour=True, H=8, W=8, C=3, validate_only=True))
    if tier == 'thorough':
        out.append(dict(layer='j2', biort='near_sym_a', qshift='qshift_a', magbias=0.01, colour=False, H=8, W=16, C=1))
        out.append(dict(layer='j2', biort='near_sym_a', qshift='qshift_c', magbias=0.01, colour=False, H=5, W=9, C=1))
    return out


def _kw(cfg):
    kw = dict(biort=cfg['biort'], magbias=cfg['magbias'], combine_colour=cfg['colour'])
    if cfg['layer'] == 'j2':
        kw['qshift'] = cfg['qshift']
    return kw


def _layer(pw, cfg):
    return (pw.ScatLayer if cfg['layer'] == 'j1' else pw.ScatLayerj2)(**_kw(cfg))


def _ref_float(cfg, xv):
    b = cfg['magbias']
    if cfg['layer'] == 'j1':
        return S.ref_scat1(cfg['biort'], b, cfg['colour'], S.extend(xv, 'even'))
    return S.ref_scat2(cfg['biort'], cfg['qshift'], b, S.extend(xv, 'mult8'), colour=cfg['colour'])


class Ctx:
    pass


def _decide(c, d, tau, label, nonlinear=False):
    v, model = c.solver.decide(d, tau, label=label, grid_bits=48 if nonlinear else None)
    if v == 'sat':
        c.sats.append((label, model))
    elif v != 'unsat':
        c.res.status = 'inconclusive'; c.res.notes.append('solver answered %s on %s' % (v, label))
    if not d.is_zero():
        c.res.nontrivial = True
    return v


def _check_mag(c, p, q_ref, b, label):
    """output element p must be sqrt(q) - b with q == q_ref"""
    ms = S.mag_struct(p)
    if ms is None:
        c.struct_bad.append('%s is not of the form sqrt(q) + const' % label)
        return None
    atom, q, const = ms
    if const != -Fraction(float(b)):
        c.struct_bad.append('%s: constant %s, expected -magbias = %s' % (label, float(const), -float(b)))
    _decide(c, q - q_ref, c.tau_q, label, nonlinear=True)
    return atom


def run_config(cfg):
    res = core.Result(cfg)
    core.begin()
    rt = symtorch.real_torch()
    b = cfg['magbias']; bF = Fraction(float(b))
    C, H, W = cfg['C'], cfg['H'], cfg['W']
    facts = dict(layer=cfg['layer'], biort=cfg['biort'], H=H, W=W, size2=bool(cfg['layer'] == 'j2' and min(H, W) <= 2))
    t0 = time.time()
    with symtorch.symbolic():
        x, ids = core.symin((1, C, H, W))
        so = core.outcome(lambda: _layer(symtorch.sym(), cfg)(x))
    res.symexec_s = time.time() - t0
    res.funcs = sorted(T.STATE.funcs_entered)
    rng = np.random.default_rng(8)
    xv = rng.uniform(-1, 1, size=(1, C, H, W))
    ro = core.outcome(lambda: _layer(symtorch.real(), cfg)(rt.tensor(xv)))
    if so[0] == 'unsupported':
        res.status = 'inconclusive'; res.notes.append('symbolic engine: ' + so[1]); return res
    if so[0] != ro[0] or (so[0] == 'raise' and so[1] != ro[1]):
        res.status = 'error'; res.trace = 'symbolic outcome %r differs from real torch outcome %r' % (core.brief(so), core.brief(ro)); return res
    if so[0] == 'raise':
        res.status = 'violation'
        res.violations.append(dict(what='layer raises %s: %s' % (so[1], so[2][:100]), facts=facts, replay=dict(kind='raise'), reproduced=True)); return res
    Z = so[1]
    # engine validation at the sample point
    env = P.AtomEnv()
    for a, v in zip(ids.reshape(-1), xv.reshape(-1)):
        env[int(a)] = float(v)
    sv = np.array([p.evalf(env) for p in Z.a.reshape(-1)])
    rz = ro[1].detach().numpy()
    if tuple(Z.shape) != tuple(rz.shape):
        res.status = 'error'; res.trace = 'shape differs symbolic %s vs real %s' % (tuple(Z.shape), rz.shape); return res
    dev = float(np.abs(sv - rz.reshape(-1)).max())
    res.validated = dev
    if dev > 1e-9:
        res.status = 'error'; res.trace = 'symbolic values deviate from real torch by %g' % dev; return res
    # documented shape and the float reference at the sample point
    exp = _ref_float(cfg, xv)
    if tuple(Z.shape) != tuple(exp.shape):
        res.status = 'violation'
        res.violations.append(dict(what='output shape %s, documented/reference %s' % (tuple(Z.shape), exp.shape), facts=facts, replay=dict(kind='shape'), reproduced=True)); return res
    if cfg.get('validate_only'):
        d = float(np.abs(rz - exp).max())
        res.notes.append('colour second order: compared with the reference composition at sample points only (%.2e)' % d)
        res.nontrivial = True
        if d > 1e-6:
            res.status = 'violation'
            res.violations.append(dict(what='colour second-order output differs from the reference composition by %.3g at the sample point' % d, facts=facts,
                                       replay=dict(kind='values', x=xv.tolist(), tau=1e-6), reproduced=True))
        return res
    c = Ctx(); c.res = res; c.sats = []; c.struct_bad = []
    st = smt.Stats(); c.solver = smt.Solver(stats=st)
    c.tau_q = Fraction(1, 10 ** 10); tau_l = Fraction(1, 10 ** 9)
    xa = np.empty(ids.shape, dtype=object)
    for idx in np.ndindex(*ids.shape):
        xa[idx] = Poly.var(int(ids[idx]))
    if cfg['layer'] == 'j1':
        xe = S.extend(xa, 'even'); He, We = xe.shape[-2:]
        rows = S.ref_rows(cfg['biort'], S.QS_FOR.get(cfg['biort'], 'qshift_a'), 1, He, We)
        h, w = He // 2, We // 2
        Zs = Z.a[0]
        lows = []; res_q = {}
        for ch in range(C):
            at = np.array([p.single_atom() for p in xe[0, ch].reshape(-1)])
            yl = S.forms(rows['yl'], at); re = S.forms(rows['re'][0], at); im = S.forms(rows['im'][0], at)
            lows.append(S.avgpool2(yl)); res_q[ch] = (re, im)
        for ch in range(C):
            idx0 = ch if cfg['colour'] else 0 * C + ch
            for (i, j) in np.ndindex(h, w):
                _decide(c, Zs[idx0, i, j] - lows[ch][i, j], tau_l, 'lowpass[c%d,%d,%d]' % (ch, i, j))
        for o in range(6):
            if cfg['colour']:
                for (i, j) in np.ndindex(h, w):
                    qref = Poly.const(bF * bF)
                    for ch in range(C):
                        re, im = res_q[ch]
                        qref = qref + re[o, i, j] * re[o, i, j] + im[o, i, j] * im[o, i, j]
                    _check_mag(c, Zs[C + o, i, j], qref, b, 'mag[o%d,%d,%d]' % (o, i, j))
            else:
                for ch in range(C):
                    re, im = res_q[ch]
                    for (i, j) in np.ndindex(h, w):
                        qref = re[o, i, j] * re[o, i, j] + im[o, i, j] * im[o, i, j] + bF * bF
                        _check_mag(c, Zs[(1 + o) * C + ch, i, j], qref, b, 'mag[o%d,c%d,%d,%d]' % (o, ch, i, j))
    else:
        _second_order(c, cfg, Z, xa, bF, b, tau_l)
    # non-negativity (Form N), one purified query per configuration
    import z3
    s2 = z3.Solver(); s2.set('timeout', 10000)
    r_, s_, e_ = z3.Reals('r s e')
    s2.add(r_ >= 0, s_ >= 0, e_ >= -1e-10, e_ <= 1e-10, r_ * r_ == s_ + e_ + z3.RealVal(bF * bF), r_ - z3.RealVal(bF) < -1e-6)
    t1 = time.time(); nn = str(s2.check()); st.solver_s += time.time() - t1; st.queries += 1; st.nonlinear += 1
    if nn == 'unsat':
        st.unsat += 1
    else:
        st.unknown += 1; res.status = 'inconclusive'; res.notes.append('non-negativity query: %s' % nn)
    res.stats = st
    if c.struct_bad or c.sats:
        # replay: the model's input (if any) and random inputs, real layer vs reference composition
        cands = [xv, rng.uniform(-1, 1, size=xv.shape), np.zeros_like(xv)]
        for lab, model in c.sats[:2]:
            cands.insert(0, core.model_array(model, ids))
        worst = 0.0; wx = None
        for xc in cands:
            z = _layer(symtorch.real(), cfg)(rt.tensor(xc)).detach().numpy()
            e = _ref_float(cfg, xc)
            d = float(np.nanmax(np.abs(z - e))) if np.isfinite(z).all() else float('inf')
            if d > worst:
                worst, wx = d, xc
        what = (c.struct_bad[:2] + [l for l, _ in c.sats[:2]])
        res.status = 'violation'
        res.violations.append(dict(what='layer output differs from the reference composition (%s); largest difference on replayed inputs %.3g' % ('; '.join(what), worst),
                                   facts=facts, replay=dict(kind='values', x=(wx if wx is not None else xv).tolist(), tau=1e-6), reproduced=worst > 1e-6,
                                   # an unrecognised but algebraically equal formulation must not raise an alarm: if nothing reproduces it is inconclusive
                                   path_dependent=not c.sats))
    return res


def _second_order(c, cfg, Z, xa, bF, b, tau_l):
    """compositional check of ScatLayerj2 (no colour, C=1 per slice)"""
    C = cfg['C']
    xe = S.extend(xa, 'mult8'); He, We = xe.shape[-2:]
    rows2 = S.ref_rows(cfg['biort'], cfg['qshift'], 2, He, We)
    h2, w2, h4, w4 = He // 2, We // 2, He // 4, We // 4
    rowsL1 = S.ref_rows(cfg['biort'], cfg['qshift'], 1, h2, w2)
    Zs = Z.a[0].reshape(49, C, h4, w4)
    # all first-level sqrt atoms of the run (argument is a polynomial in input atoms only)
    inner = [a for a in range(len(P.ATOMS)) if P.ATOMS.kind[a] == 'sqrt' and all(P.ATOMS.kind[x] == 'in' for x in P.ATOMS.info[a].atoms())]
    c.solver.auto_bounds(inner, floor=bF)
    monos = {}
    for a in inner:
        for k in P.ATOMS.info[a].t:
            monos.setdefault(k, len(monos))

    def vec(q):
        v = np.zeros(len(monos) + 1)
        for k, cf in q.t.items():
            j = monos.get(k)
            if j is None:
                v[-1] += abs(float(cf))
            else:
                v[j] = float(cf)
        return v
    IV = np.array([vec(P.ATOMS.info[a]) for a in inner]) if inner else np.zeros((0, 1))
    for ch in range(C):
        at = np.array([p.single_atom() for p in xe[0, ch].reshape(-1)])
        yl = S.forms(rows2['yl'], at)
        re1 = S.forms(rows2['re'][0], at); im1 = S.forms(rows2['im'][0], at)
        re2 = S.forms(rows2['re'][1], at); im2 = S.forms(rows2['im'][1], at)
        s0 = S.avgpool2(yl)
        for (i, j) in np.ndindex(h4, w4):
            _decide(c, Zs[0, ch, i, j] - s0[i, j], tau_l, 's0[%d,%d]' % (i, j))
        # level-2 first-order magnitudes
        for o in range(6):
            for (i, j) in np.ndindex(h4, w4):
                qref = re2[o, i, j] * re2[o, i, j] + im2[o, i, j] * im2[o, i, j] + bF * bF
                _check_mag(c, Zs[7 + o, ch, i, j], qref, b, 's1_j2[o%d,%d,%d]' % (o, i, j))
        # inner (level-1) magnitudes: match every reference position to one sqrt atom of the run
        m1 = np.empty((6, h2, w2), dtype=object)
        for o in range(6):
            for (i, j) in np.ndindex(h2, w2):
                qref = re1[o, i, j] * re1[o, i, j] + im1[o, i, j] * im1[o, i, j] + bF * bF
                v = vec(qref)
                k = int(np.argmin(np.abs(IV - v).max(axis=1))) if len(inner) else -1
                if k < 0 or np.abs(IV[k] - v).max() > 1e-7:
                    c.struct_bad.append('no inner magnitude of the run equals the reference first-order magnitude at orientation %d, (%d,%d)' % (o, i, j))
                    m1[o, i, j] = P.sqrt(qref) - bF
                    continue
                _decide(c, P.ATOMS.info[inner[k]] - qref, c.tau_q, 'inner[o%d,%d,%d]' % (o, i, j), nonlinear=True)
                m1[o, i, j] = Poly.var(inner[k]) - bF
        if c.struct_bad:
            return
        # outer stage: reference level-1 operator on the inner magnitude images
        for o1 in range(6):
            img = m1[o1].reshape(-1)
            def app(rows_):
                flat = rows_.reshape(-1, rows_.shape[-1])
                out = np.empty(flat.shape[0], dtype=object)
                for r_, row in enumerate(flat):
                    out[r_] = P.lincomb((Fraction(float(row[j_])), img[j_]) for j_ in np.nonzero(row)[0])
                return out.reshape(rows_.shape[:-1])
            low = S.avgpool2(app(rowsL1['yl']))
            reo = app(rowsL1['re'][0]); imo = app(rowsL1['im'][0])
            for (i, j) in np.ndindex(h4, w4):
                _decide(c, Zs[1 + o1, ch, i, j] - low[i, j], tau_l * 10, 's1_j1[o%d,%d,%d]' % (o1, i, j))
                for o2 in range(6):
                    qref = reo[o2, i, j] * reo[o2, i, j] + imo[o2, i, j] * imo[o2, i, j] + bF * bF
                    p = Zs[13 + o2 * 6 + o1, ch, i, j]
                    ms = S.mag_struct(p)
                    if ms is None or ms[2] != -bF:
                        c.struct_bad.append('s2[o2=%d,o1=%d,%d,%d] is not sqrt(q) - magbias' % (o2, o1, i, j)); continue
                    _decide(c, ms[1] - qref, c.tau_q * 10, 's2[o2=%d,o1=%d,%d,%d]' % (o2, o1, i, j), nonlinear=True)


def replay(payload):
    cfg = payload['config']; rp = payload['replay']
    core.begin()
    rt = symtorch.real_torch()
    if rp['kind'] != 'values':
        r = run_config(cfg)
        return dict(reproduced=r.status == 'violation', detail=[v['what'] for v in r.violations])
    xv = np.array(rp['x'])
    z = _layer(symtorch.real(), cfg)(rt.tensor(xv)).detach().numpy()
    e = _ref_float(cfg, xv)
    d = float(np.nanmax(np.abs(z - e))) if z.shape == e.shape and np.isfinite(z).all() else float('inf')
    return dict(reproduced=d > rp['tau'], detail=d)
