"""C11 — DTCWT synthesis equals the reference inverse on arbitrary pyramids; absent inputs behave like zeros."""
import time
import itertools
import numpy as np
from fractions import Fraction
import symtorch
from symtorch import poly as P, tensor as T
from vlib import core, smt, lincheck
from harness import dtlib as DT, dwtlib as D
from harness import C03, C04

META = {
    'functions': C04.META['functions'],
    'explanation': 'C11: DTCWTInverse is run on a FREE symbolic pyramid whose shapes are those of the reference pyramid for the configured image size; every output '
                   'sample minus the basis-response row of dtcwt.Transform2d.inverse must stay within tau. For every mask of absent inputs (None or torch.tensor([]) '
                   'for the lowpass or any level) the run is compared with the full symbolic run after substituting zeros for the absent atoms.',
    'bounds': {'added_families': ['everything C03 adds except chlast', 'contexts with mask PNP on 8x8'],
               'quick': {'pyramids': 'filter pairs / sizes / J of C03 quick', 'absence masks': 'all 3^(J+1) masks over {present, None, torch.tensor([])} for J<=2 on sizes 8x8, 12x10, 6x6 (one filter pair); 8 masks for J=3'},
               'thorough': {'pyramids': 'as C03 thorough', 'absence masks': 'all masks J<=2 on 6 sizes x 3 filter pairs; 27 masks J=3'}},
    'outside': C03.META['outside'],
    'assumptions': ['real-arithmetic semantics', 'dtcwt 0.14 Transform2d.inverse is linear (checked per configuration)'],
}

MASK_SIZES_Q = [(8, 8), (12, 10), (6, 6)]


def configs(tier, seed):
    out = [dict(c, mask=None) for c in C03.configs(tier, seed) if c.get('ctx') != 'chlast']
    for (h, w, J) in [(12, 16, 3), (16, 12, 3)] + ([(16, 20, 3), (20, 16, 3), (24, 20, 3), (14, 16, 3), (24, 16, 4)] if tier == 'thorough' else []):
        out.append(dict(biort='near_sym_a', qshift='qshift_a', J=J, H=h, W=w, B=1, C=1, mask=None))
    pairs = [('near_sym_a', 'qshift_a')] if tier == 'quick' else [('near_sym_a', 'qshift_a'), ('antonini', 'qshift_06'), ('near_sym_b', 'qshift_b')]
    sizes = MASK_SIZES_Q if tier == 'quick' else MASK_SIZES_Q + [(5, 7), (16, 12), (10, 10)]
    for (b, q) in pairs:
        for (h, w) in sizes:
            for J in (1, 2, 3):
                masks = [m for m in itertools.product('PNE', repeat=J + 1) if set(m) != {'P'} and 'P' in m]
                if J == 3:
                    keep = ['PNPP', 'PPNP', 'PPPN', 'NPPP', 'PNNN', 'PEPP', 'EPPP', 'PPNN'] if tier == 'quick' else None
                    masks = [m for m in masks if keep is None and (hash(m) + seed) % 3 == 0 or keep is not None and ''.join(m) in keep]
                for m in masks:
                    out.append(dict(biort=b, qshift=q, J=J, H=h, W=w, B=1, C=1, mask=''.join(m)))
    # absence masks in other layouts of the band-pass tensors; absent lowpass over three and four levels on sizes whose
    # intermediate lowpass needs the one-sample border
    for (o, ri) in ((1, 5), (0, 1), (4, 2), (2, 0), (-2, 1)):
        for m in ('NPP', 'EPP', 'PNP', 'NNP'):
            out.append(dict(biort='near_sym_a', qshift='qshift_a', J=2, H=8, W=8, B=2, C=3, mask=m, o=o, ri=ri))
    for (h, w, J) in (((12, 24, 3),) if tier == 'quick' else ((20, 32, 3), (12, 24, 3), (24, 40, 4))):
        for m in (('N' + 'P' * J,) if tier == 'quick' else ('N' + 'P' * J, 'E' + 'P' * J)):
            out.append(dict(biort='near_sym_a', qshift='qshift_a', J=J, H=h, W=w, B=1, C=1, mask=m))
    for ctx in ('nograd', 'transposed', 'reqgrad'):      # (channels-last pyramids: the shim's memory-format model of stack()/conv outputs is not validated for 6-D band tensors)
        out.append(dict(biort='near_sym_a', qshift='qshift_a', J=2, H=6, W=8, B=1, C=2, ctx=ctx))
        out.append(dict(biort='near_sym_a', qshift='qshift_a', J=2, H=8, W=8, B=1, C=1, mask='PNP', ctx=ctx))
    return out


def _specs(cfg):
    sl, sh = DT.pyramid_shapes(cfg['biort'], cfg['qshift'], cfg['J'], cfg['H'], cfg['W'])
    B, C = cfg['B'], cfg['C']
    return [('yl', (B, C) + tuple(sl))] + [('yh%d' % (j + 1), (B, C) + tuple(s)) for j, s in enumerate(sh)]


def _absent(pw_torch, kind):
    return None if kind == 'N' else pw_torch.tensor([])


def case(cfg):
    in_specs = _specs(cfg)
    mask = cfg.get('mask')

    def impl(pw, ts):
        kw = {}
        if 'o' in cfg:
            kw = dict(o_dim=cfg['o'], ri_dim=cfg['ri'])
        inv = pw.DTCWTInverse(biort=cfg['biort'], qshift=cfg['qshift'], **kw)
        tt = symtorch.shim() if pw is symtorch.sym() else symtorch.real_torch()
        args = list(ts)
        if 'o' in cfg:
            # the same pyramid handed over in another documented layout of the band-pass tensors
            args = [args[0]] + [h.movedim((2, 5), (cfg['o'] % 6, cfg['ri'] % 6)).contiguous() for h in args[1:]]
        if mask:
            args = [a if m == 'P' else _absent(tt, m) for a, m in zip(args, mask)]
        return [('rec', D.call_ctx(pw, cfg, lambda a: inv((a[0], a[1:])), args))]

    def ref(arrs):
        arrs = list(arrs)
        if mask:
            arrs = [a if m == 'P' else np.zeros_like(a) for a, m in zip(arrs, mask)]
        return [DT.ref_inverse(cfg['biort'], cfg['qshift'], arrs[0], arrs[1:])]
    return in_specs, impl, ref


def _facts(cfg):
    f = dict(biort=cfg['biort'], qshift=cfg['qshift'], J=cfg['J'], uses_empty=False, low_absent=False, crop_at_absent_level=False, any_absent=False)
    mask = cfg.get('mask')
    if mask:
        specs = _specs(cfg)
        f['any_absent'] = True
        f['uses_empty'] = 'E' in mask
        f['low_absent'] = mask[0] != 'P'
        # level j (1-based) absent and the lowpass entering it would have needed the [1:-1] crop
        J = cfg['J']
        low = specs[0][1][2:]
        for j in range(J, 0, -1):
            hs = specs[j][1]
            r1, c1 = hs[3], hs[4]
            need = (low[0] != 2 * r1) or (low[1] != 2 * c1)
            if mask[j] != 'P' and need:
                f['crop_at_absent_level'] = True
            low = (4 * r1, 4 * c1)
    return f


def run_config(cfg):
    res = core.Result(cfg)
    core.begin()
    facts = _facts(cfg)
    in_specs, impl, ref = case(cfg)
    lincheck.check_linear(res, cfg, facts, in_specs, impl, ref, oracle_offset=True, what='DTCWT inverse' + (' with absent inputs %s' % cfg['mask'] if cfg.get('mask') else ''))
    return res


def replay(payload):
    core.begin()
    in_specs, impl, ref = case(payload['config'])
    return lincheck.replay_generic(payload, in_specs, impl, ref)
