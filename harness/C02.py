"""C02 — DWT synthesis inverts analysis (perfect reconstruction), 1-D and 2-D."""
import time
import numpy as np
import pywt
from fractions import Fraction
import symtorch
from symtorch import poly as P, tensor as T
from vlib import core, oracles, smt, lincheck
from harness import dwtlib as D
from harness import C01

META = {
    'functions': ['pytorch_wavelets.DWT1DForward.forward', 'pytorch_wavelets.DWT1DInverse.forward',
                  'pytorch_wavelets.DWTForward.forward', 'pytorch_wavelets.DWTInverse.forward',
                  'pytorch_wavelets.dwt.lowlevel.SFB1D.forward', 'pytorch_wavelets.dwt.lowlevel.SFB2D.forward',
                  'pytorch_wavelets.dwt.lowlevel.sfb1d', 'pytorch_wavelets.dwt.lowlevel.afb1d'],
    'explanation': 'C02: inverse(forward(x)) is run on a tensor of input atoms; (i) every sample on the original extent minus the '
                   'PyWavelets waverec(wavedec(.)) basis-response row must stay within tau (never worse than PyWavelets); (ii) where '
                   "PyWavelets' own reconstruction is the identity to 1e-9 (this defines the PR class), the sample minus x_k must stay within 1e-7*gain.",
    'bounds': dict(C01.META['bounds'], added_families=C01.META['bounds'].get('added_families', []) + ['odd-length PR banks odd:db2:{0,1}, odd:bior2.2:{0,1} (round trip against the input only; modes zero/symmetric/reflect/periodic; N in {12,13,24,25,38}; 12x13, 16x14)']),
    'outside': C01.META['outside'],
    'assumptions': C01.META['assumptions'] + ['the PR class of a (wavelet, mode) pair is read off PyWavelets itself: ||waverec o wavedec - I|| <= 1e-9'],
}


def configs(tier, seed):
    out = [c for c in C01.configs(tier, seed) if 'dim' in c]
    if tier == 'quick':
        # every third 1-D configuration (rotated by seed), all 2-D ones
        out = [c for i, c in enumerate(out) if c['dim'] == 2 or (i + seed) % 3 == 0 or c['N'] <= 5]
    _odd_configs(out)
    return out


def _odd_configs(out):
    for nm in ('db2', 'bior2.2'):
        for fl in (0, 1):
            w = 'odd:%s:%d' % (nm, fl)
            for mode in ('zero', 'symmetric', 'reflect', 'periodic'):
                for (J, n) in ((1, 12), (1, 13), (2, 24), (2, 25), (3, 38)):
                    out.append(dict(dim=1, wave=w, mode=mode, J=J, N=n, B=1, C=1))
                out.append(dict(dim=2, wave=w, mode=mode, J=1, H=12, W=13, B=1, C=1))
                out.append(dict(dim=2, wave=w, mode=mode, J=2, H=16, W=14, B=1, C=2))


def _kinds(cfg):
    return ('fwd1', 'inv1') if cfg['dim'] == 1 else ('fwd2', 'inv2')


def _roundtrip(pw, cfg, x):
    kf, ki = _kinds(cfg)
    f = D.make_module(pw, kf, cfg)
    i = D.make_module(pw, ki, cfg)
    return i(f(x))


def _fwd_only(pw, cfg, x):
    return D.make_module(pw, _kinds(cfg)[0], cfg)(x)


def _oracle_rec_rows(cfg):
    """rows of waverec(wavedec(.)) per slice: array (out shape..., n)"""
    if cfg['dim'] == 1:
        N = cfg['N']
        c = pywt.wavedec(np.eye(N), D.W(cfg['wave']), mode=cfg['mode'], level=cfg['J'], axis=-1)
        r = pywt.waverec(c, D.W(cfg['wave']), mode=cfg['mode'], axis=-1)
        return np.moveaxis(r, 0, -1)
    H, W = cfg['H'], cfg['W']
    n = H * W
    c = pywt.wavedec2(np.eye(n).reshape(n, H, W), D.W(cfg['wave']), mode=cfg['mode'], level=cfg['J'], axes=(-2, -1))
    r = pywt.waverec2(c, D.W(cfg['wave']), mode=cfg['mode'], axes=(-2, -1))
    return np.moveaxis(r, 0, -1)


def _crop(a, cfg):
    """first N (H, W) samples of the trailing axes of an array whose leading axes are (B, C)"""
    if cfg['dim'] == 1:
        return a[:, :, :cfg['N']]
    return a[:, :, :cfg['H'], :cfg['W']]


def case(cfg, ident):
    in_specs = [('x', D.in_shape(cfg))]

    def impl(pw, ts):
        y = D.call_ctx(pw, cfg, lambda a: _roundtrip(pw, cfg, a[0]), ts)
        sp = D.in_shape(cfg)[2:]
        odd_bank = str(cfg['wave']).startswith('odd:')      # an odd-length bank yields 2*ceil((N+L-1)/2)-L+2 = N+1 samples for even N too
        ok = len(y.shape) == len(sp) + 2 and all(g == s_ or ((s_ % 2 == 1 or odd_bank) and g == s_ + 1) for g, s_ in zip(tuple(y.shape[2:]), sp))
        if not ok:
            raise AssertionError('reconstruction has shape %s for input %s (N or N+1 per axis expected)' % (tuple(y.shape), D.in_shape(cfg)))
        return [('rec', _crop(y, cfg))]

    def ref(arrs):
        x = arrs[0]
        if ident:
            return [x]
        if cfg['dim'] == 1:
            co = pywt.wavedec(x, D.W(cfg['wave']), mode=cfg['mode'], level=cfg['J'], axis=-1)
            return [pywt.waverec(co, D.W(cfg['wave']), mode=cfg['mode'], axis=-1)[..., :cfg['N']]]
        co = pywt.wavedec2(x, D.W(cfg['wave']), mode=cfg['mode'], level=cfg['J'], axes=(-2, -1))
        return [pywt.waverec2(co, D.W(cfg['wave']), mode=cfg['mode'], axes=(-2, -1))[..., :cfg['H'], :cfg['W']]]
    return in_specs, impl, ref


def run_config(cfg):
    res = core.Result(cfg)
    core.begin()
    facts = C01._facts(cfg)
    facts['transform'] = 'dwt%dd.roundtrip' % cfg['dim']
    shape = D.in_shape(cfg)
    rt = symtorch.real_torch()
    # the property quantifies over configurations on which the forward transform returns
    fo = core.outcome(lambda: _fwd_only(symtorch.real(), cfg, rt.zeros(*shape, dtype=rt.float64)))
    if fo[0] != 'ok':
        res.status = 'skipped'; res.notes.append('forward transform raises (%s): outside the quantifier of C02' % (fo[1],))
        return res
    if str(cfg['wave']).startswith('odd:'):
        # odd-length perfect-reconstruction bank (dwtlib.odd_bank): PyWavelets is no oracle (it pads such banks to even length);
        # the property itself - the round trip returns the input - is the specification
        in_specs, impl, ref = case(cfg, True)
        lincheck.check_linear(res, cfg, facts, in_specs, impl, ref, tau_rel=1e-7, what='reconstruction vs the input')
        return res
    try:
        rows = _oracle_rec_rows(cfg)
    except Exception as e:
        res.status = 'skipped'; res.notes.append('oracle raised %s' % type(e).__name__)
        return res
    sp = shape[2:]
    nsl = int(np.prod(sp))
    rows_c = rows[tuple(slice(0, s_) for s_ in sp)].reshape(-1, nsl)
    pr_err = float(np.abs(rows_c - np.eye(nsl)).max())
    res.notes.append('pywt PR error %.2e' % pr_err)
    # (i) never worse than PyWavelets
    in_specs, impl, ref = case(cfg, False)
    lincheck.check_linear(res, cfg, facts, in_specs, impl, ref, what='reconstruction vs PyWavelets round trip')
    # (ii) identity where PyWavelets itself reconstructs perfectly (this defines the PR class)
    if res.status == 'held' and pr_err <= 1e-9:
        in_specs, impl, ref = case(cfg, True)
        lincheck.check_linear(res, cfg, facts, in_specs, impl, ref, tau_rel=1e-7, what='reconstruction vs the input')
    return res


def replay(payload):
    core.begin()
    cfg = payload['config']
    ident = 'vs the input' in (payload.get('what') or '')
    in_specs, impl, ref = case(cfg, ident)
    return lincheck.replay_generic(payload, in_specs, impl, ref)
