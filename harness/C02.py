"""C02 — DWT synthesis inverts analysis (perfect reconstruction), 1-D and 2-D."""
import time
import numpy as np
import pywt
from fractions import Fraction
import symtorch
from symtorch import poly as P, tensor as T
from vlib import core, oracles, smt
from harness import dwtlib as D
from harness import C01

META = {
    'functions': ['pytorch_wavelets.DWT1DForward.forward', 'pytorch_wavelets.DWT1DInverse.forward',
                  'pytorch_wavelets.DWTForward.forward', 'pytorch_wavelets.DWTInverse.forward',
                  'pytorch_wavelets.dwt.lowlevel.SFB1D.forward', 'pytorch_wavelets.dwt.lowlevel.SFB2D.forward',
                  'pytorch_wavelets.dwt.lowlevel.sfb1d', 'pytorch_wavelets.dwt.lowlevel.afb1d'],
    'explanation': 'C02: inverse(forward(x)) is run on a tensor of input atoms; (i) every sample on the original extent minus the '
                   'PyWavelets waverec(wavedec(.)) basis-response row must stay within tau (never worse than PyWavelets); (ii) where '
                   "PyWavelets' own reconstruction is the identity to 1e-9 (this defines the PR class), the sample minus x_k must stay within 1e-7*gain.",
    'bounds': C01.META['bounds'],
    'outside': C01.META['outside'],
    'assumptions': C01.META['assumptions'] + ['the PR class of a (wavelet, mode) pair is read off PyWavelets itself: ||waverec o wavedec - I|| <= 1e-9'],
}


def configs(tier, seed):
    out = C01.configs(tier, seed)
    if tier == 'quick':
        # every third 1-D configuration (rotated by seed), all 2-D ones
        out = [c for i, c in enumerate(out) if c['dim'] == 2 or (i + seed) % 3 == 0 or c['N'] <= 5]
    return out


def _kinds(cfg):
    return ('fwd1', 'inv1') if cfg['dim'] == 1 else ('fwd2', 'inv2')


def _roundtrip(pw, cfg, x):
    kf, ki = _kinds(cfg)
    f = D.make_module(pw, kf, cfg)
    i = D.make_module(pw, ki, cfg)
    return i(f(x))


def _fwd_only(pw, cfg, x):
    return D.make_module(pw, _kinds(cfg)[0], cfg)(x)


def _oracle_rec_rows(cfg):
    """rows of waverec(wavedec(.)) per slice: array (out shape..., n)"""
    if cfg['dim'] == 1:
        N = cfg['N']
        c = pywt.wavedec(np.eye(N), cfg['wave'], mode=cfg['mode'], level=cfg['J'], axis=-1)
        r = pywt.waverec(c, cfg['wave'], mode=cfg['mode'], axis=-1)
        return np.moveaxis(r, 0, -1)
    H, W = cfg['H'], cfg['W']
    n = H * W
    c = pywt.wavedec2(np.eye(n).reshape(n, H, W), cfg['wave'], mode=cfg['mode'], level=cfg['J'], axes=(-2, -1))
    r = pywt.waverec2(c, cfg['wave'], mode=cfg['mode'], axes=(-2, -1))
    return np.moveaxis(r, 0, -1)


def _crop(a, cfg):
    """first N (H, W) samples of the trailing axes of an array whose leading axes are (B, C)"""
    if cfg['dim'] == 1:
        return a[:, :, :cfg['N']]
    return a[:, :, :cfg['H'], :cfg['W']]


def run_config(cfg):
    res = core.Result(cfg)
    core.begin()
    facts = C01._facts(cfg)
    facts['transform'] = 'dwt%dd.roundtrip' % cfg['dim']
    shape = D.in_shape(cfg)
    B, C = cfg['B'], cfg['C']
    try:
        rows = _oracle_rec_rows(cfg)
    except Exception as e:
        res.status = 'skipped'; res.notes.append('oracle raised %s' % type(e).__name__)
        return res
    sp = shape[2:]
    nsl = int(np.prod(sp))
    rows_c = rows[tuple(slice(0, s) for s in sp)].reshape(-1, nsl)     # original extent
    pr_err = float(np.abs(rows_c - np.eye(nsl)).max())
    scale = D.gain([rows_c])
    tau = Fraction(1, 10 ** 9) * Fraction(scale)
    tau_pr = Fraction(1, 10 ** 7) * Fraction(scale)
    # forward must return for the property to apply
    rt = symtorch.real_torch()
    fo = core.outcome(lambda: _fwd_only(symtorch.real(), cfg, rt.zeros(*shape, dtype=rt.float64)))
    if fo[0] != 'ok':
        res.status = 'skipped'; res.notes.append('forward transform raises (%s): outside the quantifier of C02' % (fo[1],))
        return res
    t0 = time.time()
    with symtorch.symbolic():
        x, ids = core.symin(shape)
        so = core.outcome(lambda: _roundtrip(symtorch.sym(), cfg, x))
    res.symexec_s = time.time() - t0
    res.funcs = sorted(T.STATE.funcs_entered)
    E, n = D.basis_batch(shape)
    ro = core.outcome(lambda: _roundtrip(symtorch.real(), cfg, rt.tensor(E, dtype=rt.float64)))
    if not D.same_outcome(res, so, ro):
        return res
    if so[0] == 'raise':
        res.status = 'violation'
        res.violations.append(dict(what='inverse raises %s: %s on the output of the forward transform' % (so[1], so[2][:120]), facts=facts,
                                   replay=dict(kind='raise'), reproduced=True))
        return res
    y = so[1]; ry = ro[1]
    # shape: N or N+1 per axis (N+1 only for odd N)
    ok_shape = tuple(y.shape[:2]) == tuple(shape[:2]) and len(y.shape) == len(shape) and \
        all(g == s or (s % 2 == 1 and g == s + 1) for g, s in zip(y.shape[2:], sp))
    if not ok_shape:
        res.status = 'violation'
        res.violations.append(dict(what='reconstruction has shape %s for input %s' % (tuple(y.shape), shape), facts=facts,
                                   replay=dict(kind='shape'), reproduced=tuple(ry.shape[1:]) == tuple(y.shape[1:])))
        return res
    dev = D.validate_linear([y.a], [ry], ids, n, B)
    res.validated = dev
    if dev > 1e-10 * scale:
        res.status = 'error'; res.trace = 'symbolic operator deviates from real torch by %g' % dev
        return res
    yc = _crop(y.a, cfg)
    st = smt.Stats(); solver = smt.Solver(stats=st)
    # (i) never worse than PyWavelets
    refs = []
    for b in range(B):
        for c in range(C):
            refs.extend(core.ref_poly_rows(rows_c, ids[b, c].reshape(-1)))
    sats = D.decide_bands(res, solver, [yc], [refs], tau, ['rec'])
    kind = 'vs_pywt'
    # (ii) identity where PyWavelets itself reconstructs perfectly
    if not sats and pr_err <= 1e-9:
        ident = [P.Poly.var(int(a)) for a in ids.reshape(-1)]
        sats = D.decide_bands(res, solver, [yc], [ident], tau_pr, ['rec'])
        kind = 'vs_identity'
    if not D.canary_ok(res, yc.reshape(-1)[0] - refs[0], ids.reshape(-1)[0], tau):
        return res
    res.stats = st
    res.notes.append('pywt PR error %.2e' % pr_err)
    for name, k, model in sats:
        xv = core.model_array(model, ids)
        rep = _replay_values(cfg, xv, k, kind, float(tau if kind == 'vs_pywt' else tau_pr))
        res.violations.append(dict(what='reconstruction sample %d differs from %s by %.3g' % (k, 'PyWavelets' if kind == 'vs_pywt' else 'the input', rep['diff']),
                                   facts=facts, replay=dict(kind='values', x=xv.tolist(), k=int(k), ref=kind,
                                                            tau=float(tau if kind == 'vs_pywt' else tau_pr)),
                                   reproduced=rep['reproduced']))
    if res.violations:
        res.status = 'violation'
    return res


def _replay_values(cfg, xv, k, kind, tau):
    rt = symtorch.real_torch()
    y = _roundtrip(symtorch.real(), cfg, rt.tensor(xv, dtype=rt.float64)).detach().numpy()
    yc = _crop(y, cfg)
    if kind == 'vs_identity':
        ref = xv
    else:
        ref = np.empty_like(xv)
        for b in range(cfg['B']):
            for c in range(cfg['C']):
                if cfg['dim'] == 1:
                    co = pywt.wavedec(xv[b, c], cfg['wave'], mode=cfg['mode'], level=cfg['J'])
                    ref[b, c] = pywt.waverec(co, cfg['wave'], mode=cfg['mode'])[:cfg['N']]
                else:
                    co = pywt.wavedec2(xv[b, c], cfg['wave'], mode=cfg['mode'], level=cfg['J'])
                    ref[b, c] = pywt.waverec2(co, cfg['wave'], mode=cfg['mode'])[:cfg['H'], :cfg['W']]
    diff = abs(float(yc.reshape(-1)[k]) - float(ref.reshape(-1)[k]))
    return dict(reproduced=diff > tau / 2, diff=diff)


def replay(payload):
    cfg = payload['config']; rp = payload['replay']
    core.begin()
    rt = symtorch.real_torch()
    if rp['kind'] == 'values':
        r = _replay_values(cfg, np.array(rp['x']), rp['k'], rp['ref'], rp['tau'])
        return dict(reproduced=r['reproduced'], detail=r)
    shape = D.in_shape(cfg)
    ro = core.outcome(lambda: _roundtrip(symtorch.real(), cfg, rt.zeros(*shape, dtype=rt.float64)))
    if rp['kind'] == 'raise':
        return dict(reproduced=ro[0] == 'raise', detail=ro[:3])
    if ro[0] != 'ok':
        return dict(reproduced=True, detail=ro[:3])
    g = tuple(ro[1].shape)
    ok = all(a == s or (s % 2 == 1 and a == s + 1) for a, s in zip(g[2:], shape[2:]))
    return dict(reproduced=not ok, detail=dict(got=g))
