"""C09 — scattering layers back-propagate the true gradient, finite everywhere (magbias > 0)."""
import time
import numpy as np
from fractions import Fraction
import symtorch
from symtorch import poly as P, tensor as T, autograd as AG
from symtorch.poly import Poly
from vlib import core, smt
from harness import C08

META = {
    'functions': ['pytorch_wavelets.scatternet.lowlevel.ScatLayerj1_f.forward', 'pytorch_wavelets.scatternet.lowlevel.ScatLayerj1_f.backward',
                  'pytorch_wavelets.scatternet.lowlevel.ScatLayerj1_rot_f.forward', 'pytorch_wavelets.scatternet.lowlevel.ScatLayerj1_rot_f.backward',
                  'pytorch_wavelets.scatternet.lowlevel.ScatLayerj2_f.forward', 'pytorch_wavelets.scatternet.lowlevel.ScatLayerj2_f.backward',
                  'pytorch_wavelets.scatternet.lowlevel.ScatLayerj2_rot_f.forward', 'pytorch_wavelets.scatternet.lowlevel.ScatLayerj2_rot_f.backward',
                  'pytorch_wavelets.scatternet.lowlevel.SmoothMagFn.forward', 'pytorch_wavelets.scatternet.lowlevel.SmoothMagFn.backward',
                  'pytorch_wavelets.dtcwt.transform_funcs.inv_j1', 'pytorch_wavelets.dtcwt.transform_funcs.inv_j1_rot', 'pytorch_wavelets.dtcwt.transform_funcs.inv_j2plus',
                  'pytorch_wavelets.scatternet.layers.ScatLayer.forward', 'pytorch_wavelets.scatternet.layers.ScatLayerj2.forward'],
    'explanation': 'C09: the layer is run with the input requiring grad; the tape model calls the repository\'s own backward with a symbolic cotangent g. The oracle is the '
                   'symbolic derivative of the forward\'s own expression DAG (chain rule through the purified sqrt atoms r, whose reciprocals rho = 1/r are shared atoms). '
                   'Both sides are polynomials in (g, x, r, rho); per input element the difference must stay within tau on the box g,x in [-1,1], b <= r <= R, 1/R <= rho <= 1/b '
                   '(atoms free: a sound generalisation; coefficients below 2^-48 are charged to the tolerance by the rounding lemma, anything larger is exhibited by z3, '
                   'restricted to lines through the box first). Finiteness: every reciprocal formed is of a sqrt atom whose radicand is (sum of squares) + b^2 > 0, also on '
                   'the all-zero image. Replay: central differences of the real forward pass against real autograd.',
    'bounds': {'added_families': ['second order C=2 8x8; first order magbias=1e-8 (4x4) and C=17 (2x2)', 'undecided magnitude thresholds: witnesses by evaluation at input scales 1, 2^-20, 2^-30, 2^-40, then z3 with defining constraints'],
               'quick': {'first order': 'near_sym_a 4x4, 6x6, 5x5 (odd, extended outside the Function), 4x6; near_sym_b 4x4; near_sym_b_bp 4x4 (rot); colour C=3 4x4; magbias 0.01 and 1',
                         'second order': 'near_sym_a/qshift_a 8x8 (j2), near_sym_b_bp/qshift_b_bp 8x8 (j2_rot)', 'SmoothMagFn': '2 atoms + symbolic-free b in {0.01, 1}'},
               'thorough': {'first order': 'all 5 families up to 8x8', 'second order': '+ colour, 8x16'}},
    'outside': 'magbias = 0 (gradient not claimed finite); sizes beyond the lists; float rounding',
    'assumptions': ['real-arithmetic semantics', 'tape model of torch.autograd (validated per configuration against real autograd)',
                    'sqrt atoms bounded below by the bias (their radicand is a sum of squares plus b^2, checked under C08)'],
}


def configs(tier, seed):
    out = []
    j1 = [('near_sym_a', 4, 4, 1, False), ('near_sym_a', 6, 6, 1, False), ('near_sym_a', 5, 5, 1, False), ('near_sym_a', 4, 6, 2, False), ('near_sym_b', 4, 4, 1, False),
          ('near_sym_b_bp', 4, 4, 1, False), ('near_sym_a', 4, 4, 3, True), ('near_sym_b_bp', 4, 4, 3, True), ('antonini', 4, 4, 1, False), ('near_sym_a', 3, 4, 1, False)]
    if tier == 'thorough':
        j1 += [('legall', 6, 6, 1, False), ('near_sym_b', 6, 6, 1, False), ('near_sym_b_bp', 6, 6, 1, False), ('antonini', 7, 6, 1, False), ('near_sym_a', 8, 8, 1, False)]
    for (b, h, w, C, col) in j1:
        for mb in (0.01, 1.0):
            if mb == 1.0 and (h * w > 16 or C > 1):
                continue
            out.append(dict(layer='j1', biort=b, magbias=mb, colour=col, H=h, W=w, C=C, mode='symmetric'))
    out.append(dict(layer='j1', biort='near_sym_a', magbias=0.01, colour=False, H=4, W=4, C=1, mode='zero'))
    out.append(dict(layer='j1', biort='near_sym_b_bp', magbias=0.01, colour=False, H=4, W=4, C=1, mode='zero'))
    out.append(dict(layer='j1', biort='near_sym_b', magbias=0.01, colour=False, H=4, W=6, C=1, mode='zero'))
    out.append(dict(layer='j2', biort='near_sym_a', qshift='qshift_06', magbias=0.01, colour=False, H=8, W=8, C=1, mode='symmetric'))
    out.append(dict(layer='j1', biort='near_sym_a', magbias=0.01, colour=False, H=4, W=4, C=1, mode='zero', low_only=True))
    out.append(dict(layer='j1', biort='near_sym_a', magbias=0.01, colour=False, H=4, W=4, C=1, mode='symmetric', low_only=True))
    out.append(dict(layer='j1', biort='near_sym_a', magbias=0.01, colour=False, H=6, W=6, C=1, mode='symmetric', purify=True))
    out.append(dict(layer='j2', biort='near_sym_a', qshift='qshift_a', magbias=0.01, colour=False, H=8, W=8, C=1, mode='symmetric'))
    out.append(dict(layer='j2', biort='near_sym_b_bp', qshift='qshift_b_bp', magbias=0.01, colour=False, H=8, W=8, C=1, mode='symmetric'))
    out.append(dict(layer='j2', biort='near_sym_a', qshift='qshift_a', magbias=0.01, colour=False, H=8, W=8, C=2, mode='symmetric'))
    out.append(dict(layer='j1', biort='near_sym_a', magbias=1e-8, colour=False, H=4, W=4, C=1, mode='symmetric'))
    out.append(dict(layer='j1', biort='near_sym_a', magbias=0.01, colour=False, H=2, W=2, C=17, mode='symmetric'))
    if tier == 'thorough':
        out.append(dict(layer='j2', biort='near_sym_a', qshift='qshift_a', magbias=0.01, colour=True, H=8, W=8, C=3, mode='symmetric'))
        out.append(dict(layer='j2', biort='near_sym_a', qshift='qshift_a', magbias=1.0, colour=False, H=6, W=7, C=1, mode='symmetric'))
    for extra in (dict(reuse=True), dict(twice=True)):
        out.append(dict(layer='j1', biort='near_sym_a', magbias=0.01, colour=False, H=4, W=4, C=2, mode='symmetric', **extra))
        out.append(dict(layer='j1', biort='near_sym_b_bp', magbias=0.01, colour=True, H=4, W=4, C=3, mode='symmetric', **extra))
        out.append(dict(layer='j2', biort='near_sym_a', qshift='qshift_a', magbias=0.01, colour=False, H=8, W=8, C=1, mode='symmetric', **extra))
    out.append(dict(layer='mag', magbias=0.01)); out.append(dict(layer='mag', magbias=1.0))
    return out


def _layer(pw, cfg):
    kw = dict(biort=cfg['biort'], magbias=cfg['magbias'], combine_colour=cfg['colour'], mode=cfg.get('mode', 'symmetric'))
    if cfg['layer'] == 'j2':
        kw['qshift'] = cfg['qshift']
        return pw.ScatLayerj2(**kw)
    return pw.ScatLayer(**kw)


def _run(pw, cfg, x):
    if cfg['layer'] == 'mag':
        f = pw.scatternet.lowlevel.SmoothMagFn
        return f.apply(x[0], x[1], cfg['magbias'])
    layer = _layer(pw, cfg)
    Z = layer(x)
    if cfg.get('reuse'):
        # the same layer scatters another image (other size) before the first result is back-propagated
        from harness import dwtlib as D
        tt = D.torch_of(pw)
        x2 = tt.ones(1, cfg['C'], cfg['H'] + (8 if cfg['layer'] == 'j2' else 2), cfg['W'], dtype=x.dtype) * 0.5
        layer(x2.requires_grad_(True))
    return Z


def _in_shape(cfg):
    return (2, 3) if cfg['layer'] == 'mag' else (1, cfg['C'], cfg['H'], cfg['W'])


def run_config(cfg):
    res = core.Result(cfg)
    core.run_paths(res, lambda: _run_path(res, cfg))
    return res


def _run_path(res, cfg):
    rt = symtorch.real_torch()
    b = cfg['magbias']; bF = Fraction(float(b))
    shape = _in_shape(cfg)
    facts = dict(layer=cfg['layer'], biort=cfg.get('biort'), colour=cfg.get('colour'), odd=bool(cfg.get('H', 0) % 2 or cfg.get('W', 0) % 2), mode=cfg.get('mode'))
    t0 = time.time()
    with symtorch.symbolic():
        x, ids = core.symin(shape, requires_grad=True)
        if cfg['layer'] == 'j2' or cfg.get('purify'):
            # second order: long linear operands of non-linear products become defined atoms (u := form), which keeps the
            # polynomials of both the repository's backward and the symbolic derivative small and in one vocabulary
            P.PURIFY_LINEAR[0] = 4
        so = core.outcome(lambda: _run(symtorch.sym(), cfg, x))
        bo = None
        if so[0] == 'ok':
            Z = so[1]
            vals = AG.resolve(Z)
            g, gids = core.symin(tuple(Z.shape), kind='cot', name='g')
            if cfg.get('low_only'):
                # cotangent that is exactly zero on every magnitude channel (a loss that uses the lowpass only)
                ga = g.a.copy()
                ga[:, cfg['C']:] = P.ZERO
                g = T.Tensor(ga, T.float64)
            bo = core.outcome(lambda: AG.backprop([Z], [g]))
            if cfg.get('twice') and bo[0] == 'ok':
                bo = core.outcome(lambda: AG.backprop([Z], [g]))       # a second pass through the same graph (retain_graph=True)
    res.symexec_s = time.time() - t0
    res.funcs = sorted(T.STATE.funcs_entered)
    for o in (so, bo):
        if o is not None and o[0] == 'unsupported':
            res.status = 'inconclusive'; res.notes.append('symbolic engine: ' + o[1]); return res
    rng = np.random.default_rng(13)
    xv = rng.uniform(-1, 1, size=shape)
    xr = rt.tensor(xv, requires_grad=True)
    ro = core.outcome(lambda: _run(symtorch.real(), cfg, xr))
    if so[0] != ro[0] or (so[0] == 'raise' and so[1] != ro[1]):
        res.status = 'error'; res.trace = 'symbolic outcome %r differs from real torch outcome %r' % (core.brief(so), core.brief(ro)); return res
    if so[0] == 'raise':
        res.status = 'skipped'; res.notes.append('layer raises %s' % so[1]); return res
    gv = rng.uniform(-1, 1, size=tuple(Z.shape))
    if cfg.get('low_only'):
        gv[:, cfg['C']:] = 0.0
    rgo = core.outcome(lambda: rt.autograd.grad([ro[1]], [xr], [rt.tensor(gv)], allow_unused=True, retain_graph=bool(cfg.get('twice')))[0])
    if cfg.get('twice') and rgo[0] == 'ok':
        rgo = core.outcome(lambda: rt.autograd.grad([ro[1]], [xr], [rt.tensor(gv)], allow_unused=True)[0])
    if bo[0] != rgo[0]:
        res.status = 'error'; res.trace = 'backward outcome differs: tape %r real %r' % (bo[:3], rgo[:3]); return res
    if bo[0] == 'raise':
        res.status = 'violation'
        res.violations.append(dict(what='backward raises %s: %s' % (bo[1], bo[2][:100]), facts=facts, replay=dict(kind='raise'), reproduced=True)); return res
    acc = bo[1]
    ga = AG.grad_of(x, acc)
    ga = np.array([P.ZERO if p is None else p for p in ga.reshape(-1)], dtype=object).reshape(ga.shape)
    # engine validation at the sample point
    env = P.AtomEnv()
    for a, v in zip(ids.reshape(-1), xv.reshape(-1)):
        env[int(a)] = float(v)
    for a, v in zip(gids.reshape(-1), gv.reshape(-1)):
        env[int(a)] = float(v)
    pc = list(P.PATHS.taken)
    if pc:
        facts = dict(facts, path=[bool(d_) for _, d_ in pc])
    if not pc or core.path_env_ok(env):
        sv = np.array([p.evalf(env) for p in ga.reshape(-1)])
        rg = rgo[1]
        rv = np.zeros(sv.shape) if rg is None else rg.detach().numpy().reshape(-1)
        dev = float(np.abs(sv - rv).max())
        res.validated = dev if res.validated is None else max(res.validated, dev)
        if dev > 1e-8:
            res.status = 'error'; res.trace = 'tape model deviates from real autograd by %g' % dev; return res
    else:
        res.notes.append('engine validation skipped on the data-dependent path %s' % facts['path'])
    # ---- oracle: derivative of the forward's own expression DAG ------------------------------------
    memo = {}
    true = {}
    gel = g.a.reshape(-1)
    for p, gp in zip(vals.reshape(-1), gel):
        if not gp.t:
            continue
        for a, cpoly in AG.partials(p, memo).items():
            if P.ATOMS.kind[a] != 'in':
                continue
            t = cpoly if isinstance(cpoly, Poly) else Poly.const(cpoly)
            true[a] = true.get(a, P.ZERO) + gp * t
    # ---- finiteness: every reciprocal is of a sqrt atom with strictly positive radicand, also at x = 0 --------
    st = res.stats or smt.Stats(); solver = smt.Solver(stats=st)
    if pc:
        for a in list(ids.reshape(-1)) + list(gids.reshape(-1)):
            solver.var(int(a))
        try:
            solver.add_path(pc)
        except Exception as e:
            res.status = 'inconclusive'; res.notes.append('path condition not expressible: %s' % e); return res
    env0 = P.AtomEnv()
    for a in ids.reshape(-1):
        env0[int(a)] = 0.0
    for a in gids.reshape(-1):
        env0[int(a)] = 1.0
    fin_bad = []
    sq = [a for a in range(len(P.ATOMS)) if P.ATOMS.kind[a] == 'sqrt']
    for a in range(len(P.ATOMS)):
        if P.ATOMS.kind[a] != 'inv':
            continue
        arg = P.ATOMS.info[a]
        r = arg.single_atom()
        try:
            v0 = arg.evalf(env0)
        except Exception:
            v0 = float('nan')
        if r is None or P.ATOMS.kind[r] != 'sqrt' or not (v0 > 0):
            fin_bad.append('reciprocal of %s (value at the all-zero image: %r)' % ('a sqrt atom' if r is not None else 'a general expression', v0))
    lin = [a for a in range(len(P.ATOMS)) if P.ATOMS.kind[a] == 'lin']
    solver.auto_bounds(sq, floor=bF); solver.auto_bounds(lin)
    solver.auto_bounds([a for a in range(len(P.ATOMS)) if P.ATOMS.kind[a] == 'inv'])
    if fin_bad:
        z = rt.zeros(*shape, dtype=rt.float64, requires_grad=True)
        out = _run(symtorch.real(), cfg, z)
        gz = rt.autograd.grad([out], [z], [rt.ones_like(out)], allow_unused=True)[0]
        notfinite = gz is not None and not bool(rt.isfinite(gz).all())
        res.status = 'violation'
        res.violations.append(dict(what='gradient is not finite everywhere: %s' % fin_bad[0], facts=facts, replay=dict(kind='zero'), reproduced=notfinite, path_dependent=True))
        if notfinite:
            res.stats = st
            return res
        res.violations.pop(); res.status = 'held'
        res.notes.append('unrecognised reciprocal structure: %s' % fin_bad[0])
    # ---- gradient identity per input element ------------------------------------------------------
    tau = Fraction(1, 10 ** 7)
    sats = []
    first = None
    for idx in np.ndindex(*ga.shape):
        atom = int(ids[idx])
        d = ga[idx] - true.get(atom, P.ZERO)
        if smt.has_selection(d):
            d = solver.resolve_selection(d)       # clamp / max / where whose outcome the interval bounds decide (e.g. r.clamp(min=c) with r >= bias > c)
        if first is None and ga[idx].t:
            first = ga[idx]
        if not d.is_zero():
            res.nontrivial = True
        if smt.has_selection(d):
            # an undecided magnitude threshold is left in the backward pass: look for a witness by evaluation on small inputs, then
            # let the solver decide with the defining constraints (its relaxation without them would admit spurious models)
            solver.candidate_scales = (Fraction(1), Fraction(1, 2 ** 20), Fraction(1, 2 ** 30), Fraction(1, 2 ** 40))
            for a in list(ids.reshape(-1)) + list(gids.reshape(-1)):
                solver.var(int(a))
            model = solver.guess(d, tau)
            if model is not None:
                st.queries += 1; st.sat += 1
                v = 'sat'
            else:
                v, model = solver.decide(d, tau, with_defs=True, label='dX%s' % (list(idx),))
        else:
            v, model = solver.decide(d, tau, label='dX%s' % (list(idx),), grid_bits=48)
        if v == 'sat':
            sats.append((idx, model))
            if len(sats) >= 2:
                break
        elif v != 'unsat':
            res.status = 'inconclusive'; res.notes.append('solver answered %s on %s' % (v, list(idx)))
    if first is not None:
        cs = smt.Solver(stats=smt.Stats()); cs.keep_sample = False
        cs.box = dict(solver.box)
        v, m = cs.decide(Poly.var(int(gids.reshape(-1)[0])) * Fraction(1, 100), tau, grid_bits=48)
        if v == 'unsat':
            res.status = 'error'; res.trace = 'canary query was not refuted (%s)' % v; return res
    res.stats = st
    if sats:
        # replay: central differences of the real forward vs real autograd, at the model's (x, g) and at random points
        cands = [(core.model_array(m, ids), core.model_array(m, gids)) for _, m in sats] + [(xv, gv)]
        for _ in range(3):
            g2 = rng.uniform(-1, 1, size=tuple(Z.shape))
            if cfg.get('low_only'):
                g2[:, cfg['C']:] = 0.0
            cands.append((rng.uniform(-1, 1, size=shape), g2))
        if cfg.get('low_only'):
            for xc, gc in cands:
                gc[:, cfg['C']:] = 0.0
        worst = 0.0; wc = None
        for xc, gc in cands:
            d = _fd_gap(cfg, xc, gc)
            if d > worst:
                worst, wc = d, (xc, gc)
        res.status = 'violation'
        res.violations.append(dict(what='back-propagated gradient differs from the true gradient at %s; finite-difference gap on replayed points %.3g' % ([list(i) for i, _ in sats], worst),
                                   facts=facts, replay=dict(kind='fd', x=(wc or cands[0])[0].tolist(), g=(wc or cands[0])[1].tolist(), tau=1e-5), reproduced=worst > 1e-5,
                                   path_dependent=bool(pc)))
    return res


def _fd_gap(cfg, xv, gv, h=None):
    rt = symtorch.real_torch()
    if h is None:
        # step relative to the scale on which the magnitude is curved: the input itself or the bias
        h = min(1e-6, 1e-4 * max(float(np.abs(xv).max()), float(cfg.get('magbias') or 0.0), 1e-30))
    xr = rt.tensor(xv, requires_grad=True)
    out = _run(symtorch.real(), cfg, xr)
    gr = rt.autograd.grad([out], [xr], [rt.tensor(gv)], allow_unused=True, retain_graph=bool(cfg.get('twice')))[0]
    if cfg.get('twice'):
        gr = rt.autograd.grad([out], [xr], [rt.tensor(gv)], allow_unused=True)[0]      # the second pass through the same graph is judged
    gr = np.zeros(xv.shape) if gr is None else gr.detach().numpy()
    f = lambda z: float((_run(symtorch.real(), cfg, rt.tensor(z)).detach().numpy() * gv).sum())
    worst = 0.0
    flat = xv.reshape(-1)
    for i in range(flat.size):
        e = np.zeros(flat.size); e[i] = h
        fd = (f((flat + e).reshape(xv.shape)) - f((flat - e).reshape(xv.shape))) / (2 * h)
        worst = max(worst, abs(fd - gr.reshape(-1)[i]))
    return worst


def replay(payload):
    cfg = payload['config']; rp = payload['replay']
    core.begin()
    if rp['kind'] == 'fd':
        d = _fd_gap(cfg, np.array(rp['x']), np.array(rp['g']))
        return dict(reproduced=d > rp['tau'], detail=d)
    r = run_config(cfg)
    return dict(reproduced=r.status == 'violation', detail=[v['what'] for v in r.violations])
