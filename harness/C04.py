"""C04 — DTCWT perfect reconstruction with symmetric extension."""
import numpy as np
import symtorch
from vlib import core, lincheck
from harness import dtlib as DT, dwtlib as D
from harness import C03

META = {
    'functions': C03.META['functions'] + ['pytorch_wavelets.DTCWTInverse.__init__', 'pytorch_wavelets.DTCWTInverse.forward',
                  'pytorch_wavelets.dtcwt.transform_funcs.INV_J1.forward', 'pytorch_wavelets.dtcwt.transform_funcs.INV_J2PLUS.forward',
                  'pytorch_wavelets.dtcwt.transform_funcs.inv_j1', 'pytorch_wavelets.dtcwt.transform_funcs.inv_j2plus',
                  'pytorch_wavelets.dtcwt.transform_funcs.orientations_to_highs', 'pytorch_wavelets.dtcwt.transform_funcs.get_dimensions6',
                  'pytorch_wavelets.dtcwt.transform_funcs.get_dimensions5', 'pytorch_wavelets.dtcwt.lowlevel.colifilt',
                  'pytorch_wavelets.dtcwt.lowlevel.rowifilt', 'pytorch_wavelets.dtcwt.lowlevel.c2q'],
    'explanation': 'C04: DTCWTInverse(DTCWTForward(x)) is run on input atoms; every output sample minus the corresponding input atom (odd sizes: the '
                   'even-extended image, i.e. last row/column duplicated) must stay within 1e-7*gain for every input; output shape must be (H+H%2, W+W%2).',
    'bounds': dict(C03.META['bounds'], added_families=C03.META['bounds'].get('added_families', []) + []),
    'outside': C03.META['outside'],
    'assumptions': ['real-arithmetic semantics', 'tolerance 1e-7 (the shipped tables satisfy the PR conditions to ~1e-9, see C18)'],
}


def configs(tier, seed):
    out = C03.configs(tier, seed)
    # rectangular sizes whose level>=2 lowpass needs the 1-sample border on one axis only (size % 4 == 2 at that level)
    extra = [(6, 8, 2), (8, 6, 2), (10, 8, 2), (12, 16, 3), (16, 12, 3), (16, 20, 3), (20, 16, 3)] if tier == 'quick' else \
            [(6, 8, 2), (8, 6, 2), (10, 8, 2), (12, 16, 3), (16, 12, 3), (16, 20, 3), (20, 16, 3), (24, 20, 3), (12, 24, 3), (14, 16, 3), (16, 14, 3), (24, 16, 4)]
    for (h, w, J) in extra:
        out.append(dict(biort='near_sym_a', qshift='qshift_a', J=J, H=h, W=w, B=1, C=1))
    return out


def case(cfg):
    in_specs = [('x', (cfg['B'], cfg['C'], cfg['H'], cfg['W']))]

    def impl(pw, ts):
        f = pw.DTCWTForward(biort=cfg['biort'], qshift=cfg['qshift'], J=cfg['J'])
        i = pw.DTCWTInverse(biort=cfg['biort'], qshift=cfg['qshift'])
        return [('rec', D.call_ctx(pw, cfg, lambda a: i(f(a[0])), ts))]

    def ref(arrs):
        x = arrs[0]
        if x.shape[2] % 2:
            x = np.concatenate([x, x[:, :, -1:]], axis=2)
        if x.shape[3] % 2:
            x = np.concatenate([x, x[:, :, :, -1:]], axis=3)
        return [x]
    return in_specs, impl, ref


def run_config(cfg):
    res = core.Result(cfg)
    core.begin()
    in_specs, impl, ref = case(cfg)
    lincheck.check_linear(res, cfg, dict(biort=cfg['biort'], qshift=cfg['qshift'], J=cfg['J']), in_specs, impl, ref, tau_rel=1e-7,
                          what='DTCWT reconstruction')
    return res


def replay(payload):
    core.begin()
    in_specs, impl, ref = case(payload['config'])
    return lincheck.replay_generic(payload, in_specs, impl, ref)
