"""C12 — DTCWT options only re-arrange or select outputs; pyramids are prefix-consistent."""
import ast
import itertools
import os
import subprocess
import sys
import tempfile
import time
import numpy as np
import symtorch
from symtorch import tensor as T
from vlib import core, smt, lincheck
from harness import dtlib as DT

ROOT = os.path.dirname(os.path.dirname(os.path.abspath(__file__)))

META = {
    'functions': ['pytorch_wavelets.dtcwt.transform_funcs.get_dimensions5', 'pytorch_wavelets.dtcwt.transform_funcs.get_dimensions6',
                  'pytorch_wavelets.DTCWTForward.forward', 'pytorch_wavelets.DTCWTInverse.forward', 'pytorch_wavelets.dtcwt.transform_funcs.FWD_J1.forward',
                  'pytorch_wavelets.dtcwt.transform_funcs.FWD_J2PLUS.forward', 'pytorch_wavelets.dtcwt.transform_funcs.INV_J1.forward',
                  'pytorch_wavelets.dtcwt.transform_funcs.INV_J2PLUS.forward', 'pytorch_wavelets.dtcwt.transform_funcs.highs_to_orientations',
                  'pytorch_wavelets.dtcwt.transform_funcs.orientations_to_highs'],
    'explanation': 'C12: (a) get_dimensions5/get_dimensions6 are cut out of the current source and checked by CrossHair (z3) for ALL integer arguments against the '
                   'specification "remove the orientation and real/imag positions; the remaining four axes are N,C,H,W in order" (with a reachability twin); '
                   '(b) for every ordered pair (o_dim, ri_dim) incl. negative aliases the forward run on input atoms must equal movedim of the default-layout run, and '
                   'the inverse configured with the pair, run on a free symbolic pyramid in that layout, must equal the default inverse; (c) every skip_hps x '
                   'include_scale mask: skipped levels are 0-dim placeholders, everything else equals the unmasked run, requested scales equal the lowpass of the '
                   'shorter transform; (d) the first j levels of a J-level transform equal the j-level transform.',
    'bounds': {'quick': {'dims': 'all integers (CrossHair, unbounded)', 'layouts': 'all 30 pairs on 6x8 J=2 (near_sym_a/qshift_a) + 132 argument pairs incl. negative aliases on 4x4 J=1',
                         'masks': 'all skip x include masks J<=2 (5x7), 16 masks J=3 (8x8)', 'prefix': 'j<J<=3 on 8x8, 6x10, 5x7'},
               'thorough': {'layouts': 'all 132 argument pairs on 6x8 J=2, 30 pairs on 3 filter pairs / 5x7 J=3', 'masks': 'all 64 masks J=3 on 3 sizes', 'prefix': '3 filter pairs'}},
    'outside': 'image sizes beyond the lists; J>3 for masks/prefix',
    'assumptions': ['CrossHair "Confirmed over all paths" is trusted for the integer tables', 'real-arithmetic semantics for the tensor-level identities'],
}


def configs(tier, seed):
    out = [dict(kind='dims')]
    pairs30 = [(o, r) for o in range(6) for r in range(6) if o != r]
    allargs = [(o, r) for o in range(-6, 6) for r in range(-6, 6) if o % 6 != r % 6]
    if tier == 'quick':
        for (o, r) in pairs30:
            out.append(dict(kind='layout', o=o, ri=r, H=6, W=8, J=2, biort='near_sym_a', qshift='qshift_a'))
        for (o, r) in allargs:
            if o < 0 or r < 0:
                out.append(dict(kind='layout', o=o, ri=r, H=4, W=4, J=1, biort='near_sym_a', qshift='qshift_a'))
        for J in (1, 2):
            for sk in itertools.product([False, True], repeat=J):
                for inc in itertools.product([False, True], repeat=J):
                    out.append(dict(kind='masks', skip=list(sk), inc=list(inc), H=5, W=7, J=J, biort='near_sym_a', qshift='qshift_a'))
        ms = list(itertools.product(itertools.product([False, True], repeat=3), repeat=2))
        for k, (sk, inc) in enumerate(ms):
            if (k + seed) % 4 == 0:
                out.append(dict(kind='masks', skip=list(sk), inc=list(inc), H=8, W=8, J=3, biort='near_sym_a', qshift='qshift_a'))
        for (h, w) in [(8, 8), (6, 10), (5, 7)]:
            for J in (2, 3):
                out.append(dict(kind='prefix', H=h, W=w, J=J, biort='near_sym_a', qshift='qshift_a'))
        out.append(dict(kind='prefix', H=8, W=8, J=3, biort='near_sym_b', qshift='qshift_b'))
    else:
        for (o, r) in allargs:
            out.append(dict(kind='layout', o=o, ri=r, H=6, W=8, J=2, biort='near_sym_a', qshift='qshift_a'))
        for (b, q) in [('antonini', 'qshift_06'), ('near_sym_b', 'qshift_b'), ('legall', 'qshift_d')]:
            for (o, r) in pairs30:
                out.append(dict(kind='layout', o=o, ri=r, H=5, W=7, J=3, biort=b, qshift=q))
        for (h, w) in [(8, 8), (5, 7), (12, 10)]:
            for J in (1, 2, 3):
                for sk in itertools.product([False, True], repeat=J):
                    for inc in itertools.product([False, True], repeat=J):
                        out.append(dict(kind='masks', skip=list(sk), inc=list(inc), H=h, W=w, J=J, biort='near_sym_a', qshift='qshift_a'))
        for (b, q) in [('near_sym_a', 'qshift_a'), ('antonini', 'qshift_06'), ('near_sym_b', 'qshift_b')]:
            for (h, w) in [(8, 8), (6, 10), (5, 7), (12, 12)]:
                for J in (2, 3):
                    out.append(dict(kind='prefix', H=h, W=w, J=J, biort=b, qshift=q))
    return out


# ---- (a) integer tables, all integers --------------------------------------------------------

_CONTRACT = '''

def _spec6(o_dim, ri_dim):
    o = o_dim % 6
    ri = ri_dim % 6
    rest = [d for d in range(6) if d != o and d != ri]
    return (o - (1 if ri < o else 0), ri, rest[2], rest[3])


def _spec5(o_dim, ri_dim):
    o = o_dim % 6
    ri = ri_dim % 6
    o5 = o - (1 if ri < o else 0)
    rest = [d for d in range(5) if d != o5]
    return (o5, ri, rest[2], rest[3])


def check_dims6(o_dim: int, ri_dim: int):
    """
    pre: o_dim % 6 != ri_dim % 6
    post: __return__ == _spec6(o_dim, ri_dim)
    """
    return get_dimensions6(o_dim, ri_dim)


def check_dims5(o_dim: int, ri_dim: int):
    """
    pre: o_dim % 6 != ri_dim % 6
    post: __return__ == _spec5(o_dim, ri_dim)
    """
    return get_dimensions5(o_dim, ri_dim)


def twin_dims6(o_dim: int, ri_dim: int):
    """
    pre: o_dim % 6 != ri_dim % 6
    post: False
    """
    return get_dimensions6(o_dim, ri_dim)
'''


def _run_dims(res, cfg):
    repo = symtorch.REPO
    src = open(os.path.join(repo, 'pytorch_wavelets/dtcwt/transform_funcs.py')).read()
    tree = ast.parse(src)
    funcs = [n for n in tree.body if isinstance(n, ast.FunctionDef) and n.name in ('get_dimensions5', 'get_dimensions6')]
    if len(funcs) != 2:
        res.status = 'inconclusive'; res.notes.append('get_dimensions5/6 not found as plain module-level functions'); return res
    code = '\n\n'.join(ast.get_source_segment(src, f) for f in funcs) + _CONTRACT
    d = tempfile.mkdtemp(prefix='c12_', dir=os.path.join(ROOT, '.scratch') if os.path.isdir(os.path.join(ROOT, '.scratch')) else None)
    path = os.path.join(d, 'dims_under_test.py')
    with open(path, 'w') as f:
        f.write(code)
    t0 = time.time()
    env = dict(os.environ, PYTHONPATH='')
    p = subprocess.run([sys.executable, '-m', 'crosshair', 'check', '--report_all', '--per_condition_timeout', '40', path],
                       capture_output=True, text=True, env=env, timeout=400)
    dt = time.time() - t0
    out = p.stdout + p.stderr
    import shutil
    shutil.rmtree(d, ignore_errors=True)
    st = smt.Stats()
    verdicts = {}
    for line in out.splitlines():
        for fn in ('check_dims6', 'check_dims5', 'twin_dims6'):
            pass
    # crosshair prints "<file>:<line>: info: Confirmed over all paths." / "error: false when calling f(...)"
    lines = [l for l in out.splitlines() if 'dims_under_test.py' in l]
    linemap = {}
    for i, l in enumerate(code.splitlines(), 1):
        for fn in ('check_dims6', 'check_dims5', 'twin_dims6'):
            if l.startswith('def ' + fn):
                linemap[fn] = i
    for l in lines:
        try:
            ln = int(l.split('dims_under_test.py:')[1].split(':')[0])
        except Exception:
            continue
        fn = max((f for f in linemap if linemap[f] <= ln), key=lambda f: linemap[f], default=None)
        if fn:
            verdicts.setdefault(fn, []).append(l.split(':', 3)[-1].strip())
    st.queries = 3; st.solver_s = dt
    res.stats = st
    res.nontrivial = True
    res.notes.append('crosshair: %s' % verdicts)
    twin = ' '.join(verdicts.get('twin_dims6', []))
    if 'false when calling' not in twin.lower() and 'error' not in twin.lower():
        res.status = 'error'; res.trace = 'reachability twin (post: False) was not refuted: %s\n%s' % (twin, out[-800:]); return res
    for fn in ('check_dims6', 'check_dims5'):
        v = ' '.join(verdicts.get(fn, []))
        if 'Confirmed over all paths' in v:
            st.unsat += 1
            continue
        if 'false when calling' in v:
            # counterexample: replay on the real function
            import re
            m = re.search(r'\((-?\d+),\s*(-?\d+)\)', v)
            o, r = (int(m.group(1)), int(m.group(2))) if m else (None, None)
            rep = _replay_dims(fn, o, r) if m else False
            st.sat += 1
            res.violations.append(dict(what='%s(%s, %s) does not return the true axes: %s' % (fn.replace('check_', 'get_').replace('dims', 'dimensions'), o, r, v[:160]),
                                       facts=dict(kind='dims', fn=fn, o=o, ri=r), replay=dict(kind='dims', fn=fn, o=o, ri=r), reproduced=rep))
        else:
            st.unknown += 1
            res.status = 'inconclusive'; res.notes.append('%s: %s' % (fn, v or out[-300:]))
    if res.violations:
        res.status = 'violation'
    return res


def _spec(fn, o_dim, ri_dim):
    o = o_dim % 6; ri = ri_dim % 6
    o5 = o - (1 if ri < o else 0)
    if fn == 'check_dims6':
        rest = [d for d in range(6) if d != o and d != ri]
    else:
        rest = [d for d in range(5) if d != o5]
    return (o5, ri, rest[2], rest[3])


def _replay_dims(fn, o, r):
    tf = symtorch.real('pytorch_wavelets.dtcwt.transform_funcs')
    f = tf.get_dimensions6 if fn == 'check_dims6' else tf.get_dimensions5
    return tuple(f(o, r)) != _spec(fn, o, r)


# ---- (b) layouts --------------------------------------------------------------------------------

def _fwd_items(yl, yh):
    return [('yl', yl)] + [('yh%d' % (j + 1), h) for j, h in enumerate(yh)]


def _layout_case(cfg):
    o, ri = cfg['o'], cfg['ri']
    kw = dict(biort=cfg['biort'], qshift=cfg['qshift'])
    in_f = [('x', (1, 2, cfg['H'], cfg['W']))]

    def fwd_a(pw, ts):
        yl, yh = pw.DTCWTForward(J=cfg['J'], o_dim=o, ri_dim=ri, **kw)(ts[0])
        return _fwd_items(yl, yh)

    def fwd_b(pw, ts):
        yl, yh = pw.DTCWTForward(J=cfg['J'], **kw)(ts[0])
        return _fwd_items(yl, [h.movedim((2, 5), (o % 6, ri % 6)) for h in yh])
    sl, sh = DT.pyramid_shapes(cfg['biort'], cfg['qshift'], cfg['J'], cfg['H'], cfg['W'])
    in_i = [('yl', (1, 2) + tuple(sl))] + [('yh%d' % (j + 1), (1, 2) + tuple(s)) for j, s in enumerate(sh)]

    def inv_a(pw, ts):
        hs = [h.movedim((2, 5), (o % 6, ri % 6)).contiguous() for h in ts[1:]]
        return [('rec', pw.DTCWTInverse(o_dim=o, ri_dim=ri, **kw)((ts[0], hs)))]

    def inv_b(pw, ts):
        return [('rec', pw.DTCWTInverse(**kw)((ts[0], list(ts[1:]))))]
    return in_f, fwd_a, fwd_b, in_i, inv_a, inv_b


# ---- (c) masks ------------------------------------------------------------------------------------

def _mask_case(cfg):
    kw = dict(biort=cfg['biort'], qshift=cfg['qshift'])
    J = cfg['J']; sk = cfg['skip']; inc = cfg['inc']
    in_f = [('x', (1, 1, cfg['H'], cfg['W']))]

    def a(pw, ts):
        yl, yh = pw.DTCWTForward(J=J, skip_hps=list(sk), include_scale=list(inc), **kw)(ts[0])
        items = []
        if any(inc):
            if not isinstance(yl, (list, tuple)) or len(yl) != J:
                raise TypeError('include_scale: expected a list of J lowpasses')
            for j in range(J):
                items.append(('scale%d' % (j + 1), yl[j] if inc[j] else ('placeholder', tuple(yl[j].shape))))
        else:
            items.append(('yl', yl))
        for j in range(J):
            items.append(('yh%d' % (j + 1), ('placeholder', tuple(yh[j].shape)) if sk[j] else yh[j]))
        return items

    def b(pw, ts):
        items = []
        yl, yh = pw.DTCWTForward(J=J, **kw)(ts[0])
        if any(inc):
            for j in range(J):
                if inc[j]:
                    ylj, _ = pw.DTCWTForward(J=j + 1, **kw)(ts[0])
                    items.append(('scale%d' % (j + 1), ylj))
                else:
                    items.append(('scale%d' % (j + 1), ('placeholder', ())))
        else:
            items.append(('yl', yl))
        for j in range(J):
            items.append(('yh%d' % (j + 1), ('placeholder', ()) if sk[j] else yh[j]))
        return items
    return in_f, a, b


def _prefix_case(cfg):
    kw = dict(biort=cfg['biort'], qshift=cfg['qshift'])
    J = cfg['J']
    in_f = [('x', (1, 1, cfg['H'], cfg['W']))]

    def a(pw, ts):
        yl, yh = pw.DTCWTForward(J=J, **kw)(ts[0])
        out = []
        for j in range(1, J):
            out += [('J%d:yh%d' % (j, k + 1), yh[k]) for k in range(j)]
        return out

    def b(pw, ts):
        out = []
        for j in range(1, J):
            yl, yh = pw.DTCWTForward(J=j, **kw)(ts[0])
            out += [('J%d:yh%d' % (j, k + 1), yh[k]) for k in range(j)]
        return out
    return in_f, a, b


def run_config(cfg):
    res = core.Result(cfg)
    core.begin()
    facts = dict(kind=cfg['kind'])
    if cfg['kind'] == 'dims':
        return _run_dims(res, cfg)
    if cfg['kind'] == 'layout':
        facts.update(o=cfg['o'] % 6, ri=cfg['ri'] % 6)
        in_f, fa, fb, in_i, ia, ib = _layout_case(cfg)
        lincheck.check_same(res, cfg, dict(facts, dir='fwd'), in_f, fa, fb, what='layout (%d,%d) forward vs movedim of default' % (cfg['o'], cfg['ri']), allow_both_raise=False)
        if res.status == 'held':
            core.begin()
            lincheck.check_same(res, cfg, dict(facts, dir='inv'), in_i, ia, ib, what='layout (%d,%d) inverse vs default inverse' % (cfg['o'], cfg['ri']), allow_both_raise=False, seed=3)
        return res
    if cfg['kind'] == 'masks':
        in_f, a, b = _mask_case(cfg)
        lincheck.check_same(res, cfg, facts, in_f, a, b, what='skip_hps=%s include_scale=%s vs plain transforms' % (cfg['skip'], cfg['inc']), allow_both_raise=False)
        return res
    in_f, a, b = _prefix_case(cfg)
    lincheck.check_same(res, cfg, facts, in_f, a, b, what='prefix consistency', allow_both_raise=False)
    return res


def replay(payload):
    cfg = payload['config']; rp = payload['replay']
    core.begin()
    if rp['kind'] == 'dims':
        return dict(reproduced=_replay_dims(rp['fn'], rp['o'], rp['ri']))
    if cfg['kind'] == 'layout':
        in_f, fa, fb, in_i, ia, ib = _layout_case(cfg)
        if payload.get('facts', {}).get('dir') == 'inv':
            return lincheck.replay_same(payload, in_i, ia, ib)
        return lincheck.replay_same(payload, in_f, fa, fb)
    in_f, a, b = _mask_case(cfg) if cfg['kind'] == 'masks' else _prefix_case(cfg)
    return lincheck.replay_same(payload, in_f, a, b)
