"""C10 — DWT synthesis equals PyWavelets on arbitrary coefficient pyramids (incl. None levels)."""
import time
import itertools
import numpy as np
import pywt
from fractions import Fraction
import symtorch
from symtorch import poly as P, tensor as T
from vlib import core, oracles, smt, lincheck
from harness import dwtlib as D
from harness import C01

META = {
    'functions': ['pytorch_wavelets.DWT1DInverse.forward', 'pytorch_wavelets.DWTInverse.forward',
                  'pytorch_wavelets.dwt.lowlevel.SFB1D.forward', 'pytorch_wavelets.dwt.lowlevel.SFB2D.forward',
                  'pytorch_wavelets.dwt.lowlevel.sfb1d', 'pytorch_wavelets.dwt.lowlevel.roll'],
    'explanation': 'C10: the inverse DWT is run on a FREE symbolic pyramid (one atom per coefficient, shapes = those PyWavelets '
                   'produces for the configured signal size); every output sample minus the waverec/waverec2 basis-response row '
                   'must stay within tau. For each mask of None levels the run with None is compared, on the signal extent, with '
                   'the full symbolic run after substituting zeros for that level (and with the oracle given zeros).',
    'bounds': dict(C01.META['bounds'], added_families=C01.META['bounds'].get('added_families', []) + ['None levels also with per-axis pairs', 'same instance called on a float32 pyramid first (f32call)']),
    'outside': C01.META['outside'] + '; None-masks: all 2^J for J<=2, three masks for J=3',
    'assumptions': C01.META['assumptions'] + ['signal extent of a pyramid = the size whose wavedec gave its shapes'],
}


def configs(tier, seed):
    base = [c for c in C01.configs(tier, seed) if 'dim' in c]
    out = []
    for i, c in enumerate(base):
        if tier == 'quick' and c['dim'] == 1 and not ((i + seed) % 3 == 0 or c['N'] <= 5):
            continue
        out.append(dict(c, mask=[]))
    # None levels with distinct column / row filters (4-tuples)
    for w in ('pair:db2|bior1.3', 'pair:haar|db2'):
        for mode in D.MODES:
            out.append(dict(dim=2, wave=w, mode=mode, J=1, H=10, W=12, B=1, C=1, mask=[1]))
            out.append(dict(dim=2, wave=w, mode=mode, J=2, H=16, W=24, B=1, C=1, mask=[1, 0]))
            out.append(dict(dim=2, wave=w, mode=mode, J=2, H=16, W=24, B=1, C=1, mask=[0, 1]))
    for mode in ('zero', 'periodization'):
        out.append(dict(dim=1, wave='db2', mode=mode, J=2, N=9, B=1, C=2, mask=[], prelude='f32call'))
        out.append(dict(dim=2, wave='db2', mode=mode, J=1, H=5, W=6, B=1, C=1, mask=[], prelude='f32call'))
    # None-level masks on a slice
    waves = ['db2', 'bior2.4'] if tier == 'quick' else ['haar', 'db2', 'db3', 'bior2.4', 'bior3.1', 'sym4']
    for w in waves:
        L = D.filt_len(w)
        for mode in D.MODES:
            for J in (1, 2, 3):
                masks = [m for m in itertools.product([0, 1], repeat=J) if any(m)]
                if J == 3:
                    masks = [(1, 0, 0), (0, 1, 1), (1, 1, 1)]
                for m in masks:
                    for n in ((2 * L + 1, 2 * L + 4) if tier == 'quick' else (L + 1, 2 * L, 2 * L + 1, 2 * L + 4)):
                        out.append(dict(dim=1, wave=w, mode=mode, J=J, N=n, B=1, C=1, mask=list(m)))
                    if J <= 2:
                        out.append(dict(dim=2, wave=w, mode=mode, J=J, H=L + 3, W=2 * L, B=1, C=1, mask=list(m)))
    return out


def _sym_pyramid(cfg):
    yl_s, yh_s = D.pyramid_shapes(cfg)
    B, C = cfg['B'], cfg['C']
    yl, ids_l = core.symin((B, C) + tuple(yl_s), name='yl')
    yh = []; ids_h = []
    for j, s in enumerate(yh_s):
        t, i = core.symin((B, C) + tuple(s), name='yh%d' % (j + 1))
        yh.append(t); ids_h.append(i)
    return yl, yh, ids_l, ids_h


def _inv(pw, cfg, yl, yh):
    m = D.make_module(pw, 'inv1' if cfg['dim'] == 1 else 'inv2', cfg)
    if cfg.get('prelude') == 'f32call':
        # the same instance was first handed a single-precision pyramid (accepted or rejected: the synthesis of the
        # double-precision pyramid afterwards is still what PyWavelets returns)
        try:
            m((yl.detach().float(), [None if h is None else h.detach().float() for h in yh]))
        except (RuntimeError, TypeError, ValueError):
            pass
    return D.call_ctx(pw, cfg, lambda a: m((a[0], list(a[1:]))), [yl] + list(yh))


def _all_ids(ids_l, ids_h):
    return np.concatenate([ids_l.reshape(-1)] + [i.reshape(-1) for i in ids_h])


def _basis_pyramid(cfg, shapes_l, shapes_h, mask):
    """one-hot pyramids stacked on the batch axis (B=C=1 per slice handled by caller)"""
    B, C = cfg['B'], cfg['C']
    sizes = [int(np.prod((B, C) + tuple(shapes_l)))] + [int(np.prod((B, C) + tuple(s))) for s in shapes_h]
    n = sum(sizes)
    E = np.eye(n)
    off = 0
    parts = []
    for sz, s in zip(sizes, [shapes_l] + list(shapes_h)):
        blk = E[:, off:off + sz].reshape((n, B, C) + tuple(s)).reshape((n * B, C) + tuple(s))
        parts.append(blk); off += sz
    return parts[0], parts[1:], n


def _extent(a, cfg):
    return a[:, :, :cfg['N']] if cfg['dim'] == 1 else a[:, :, :cfg['H'], :cfg['W']]


def _oracle_rows(cfg, shapes_l, shapes_h, mask):
    """rows of waverec over the per-slice pyramid (levels in mask passed as None): array (out..., n_slice)"""
    sizes = [int(np.prod(shapes_l))] + [int(np.prod(s)) for s in shapes_h]
    n = sum(sizes)
    E = np.eye(n)
    off = 0
    arrs = []
    for sz, s in zip(sizes, [shapes_l] + list(shapes_h)):
        arrs.append(E[:, off:off + sz].reshape((n,) + tuple(s))); off += sz
    yh = [None if (mask and mask[j]) else a for j, a in enumerate(arrs[1:])]
    if cfg['dim'] == 2:
        yh2 = [(None, None, None) if h is None else tuple(np.take(h, i, axis=-3) for i in range(3)) for h in yh]
        r = pywt.waverec2([arrs[0]] + yh2[::-1], D.W(cfg['wave']), mode=cfg['mode'], axes=(-2, -1))
    else:
        r = pywt.waverec([arrs[0]] + yh[::-1], D.W(cfg['wave']), mode=cfg['mode'], axis=-1)
    return np.moveaxis(r, 0, -1)


def _facts(cfg):
    f = C01._facts(cfg)
    f['transform'] = 'dwt%dd.inverse' % cfg['dim']
    f['none_levels'] = bool(cfg.get('mask') and any(cfg['mask']))
    L = D.filt_len(cfg['wave'])
    dims = [cfg['N']] if cfg['dim'] == 1 else [cfg['H'], cfg['W']]
    f['none_at_odd_level'] = False
    if f['none_levels']:
        try:
            _, yh_s = D.pyramid_shapes(cfg)
            m = cfg['mask']
            f['none_at_odd_level'] = any(m[j] and any(s % 2 for s in yh_s[j][-cfg['dim']:]) for j in range(len(m) - 1))
        except Exception:
            pass
    f['none_unpad_then_present'] = False
    if f['none_levels']:
        try:
            yl_s, yh_s = D.pyramid_shapes(cfg)
            m = cfg['mask']; J = len(m); L = D.filt_len(cfg['wave'])
            for ax in range(1, cfg['dim'] + 1):
                lens = [s[-ax] for s in yh_s]
                for j in range(J - 1):          # level j (0-based, finest first) masked; coarser level j+1 feeds it
                    rec = 2 * lens[j + 1] if cfg['mode'] == 'periodization' else 2 * lens[j + 1] - L + 2
                    if m[j] and rec > lens[j] and any(not m[i] for i in range(j)):
                        f['none_unpad_then_present'] = True
        except Exception:
            pass
    f['per_short_inv'] = bool(cfg['mode'] == 'periodization' and any(_per_short_inv(n, L, cfg['J']) for n in dims))
    return f


def _per_short_inv(n, L, J):
    for _ in range(J):
        ne = n + (n % 2)
        if ne < L - 2:
            return True
        n = ne // 2
    return False


def case(cfg):
    mask = cfg.get('mask') or []
    B, C = cfg['B'], cfg['C']
    sl, sh = D.pyramid_shapes(cfg)
    in_specs = [('yl', (B, C) + tuple(sl))] + [('yh%d' % (j + 1), (B, C) + tuple(s)) for j, s in enumerate(sh)]
    use_mask = any(mask)

    def impl(pw, ts):
        hs = [None if (use_mask and mask[j]) else h for j, h in enumerate(ts[1:])]
        y = _inv(pw, cfg, ts[0], hs)
        return [('rec', _extent(y, cfg) if use_mask else y)]

    def impl_zeros(pw, ts):
        hs = [h * 0 if (use_mask and mask[j]) else h for j, h in enumerate(ts[1:])]
        return [('rec', _extent(_inv(pw, cfg, ts[0], hs), cfg))]

    def ref(arrs):
        hs = [None if (use_mask and mask[j]) else h for j, h in enumerate(arrs[1:])]
        if cfg['dim'] == 1:
            r = pywt.waverec([arrs[0]] + hs[::-1], D.W(cfg['wave']), mode=cfg['mode'], axis=-1)
        else:
            co = [arrs[0]] + [(None, None, None) if h is None else tuple(np.take(h, i, axis=-3) for i in range(3)) for h in hs[::-1]]
            r = pywt.waverec2(co, D.W(cfg['wave']), mode=cfg['mode'], axes=(-2, -1))
        return [_extent(r, cfg) if use_mask else r]
    return in_specs, impl, impl_zeros, ref


def run_config(cfg):
    res = core.Result(cfg)
    core.begin()
    facts = _facts(cfg)
    try:
        in_specs, impl, impl_zeros, ref = case(cfg)
    except Exception as e:
        res.status = 'skipped'; res.notes.append('oracle raised %s' % type(e).__name__)
        return res
    what = 'inverse DWT' + (' with None levels %s' % cfg['mask'] if any(cfg.get('mask') or []) else '')
    if any(cfg.get('mask') or []):
        # (a) None == zeros of the right shape, on the signal extent
        lincheck.check_same(res, cfg, facts, in_specs, impl, impl_zeros, what=what + ' vs zeros', allow_both_raise=False)
        if res.status != 'held':
            return res
    # (b) equals PyWavelets
    lincheck.check_linear(res, cfg, facts, in_specs, impl, ref, what=what)
    return res


def replay(payload):
    cfg = payload['config']
    core.begin()
    in_specs, impl, impl_zeros, ref = case(cfg)
    if payload['replay'].get('kind') == 'same':
        return lincheck.replay_same(payload, in_specs, impl, impl_zeros)
    return lincheck.replay_generic(payload, in_specs, impl, ref)
