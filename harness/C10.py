"""C10 — DWT synthesis equals PyWavelets on arbitrary coefficient pyramids (incl. None levels)."""
import time
import itertools
import numpy as np
import pywt
from fractions import Fraction
import symtorch
from symtorch import poly as P, tensor as T
from vlib import core, oracles, smt
from harness import dwtlib as D
from harness import C01

META = {
    'functions': ['pytorch_wavelets.DWT1DInverse.forward', 'pytorch_wavelets.DWTInverse.forward',
                  'pytorch_wavelets.dwt.lowlevel.SFB1D.forward', 'pytorch_wavelets.dwt.lowlevel.SFB2D.forward',
                  'pytorch_wavelets.dwt.lowlevel.sfb1d', 'pytorch_wavelets.dwt.lowlevel.roll'],
    'explanation': 'C10: the inverse DWT is run on a FREE symbolic pyramid (one atom per coefficient, shapes = those PyWavelets '
                   'produces for the configured signal size); every output sample minus the waverec/waverec2 basis-response row '
                   'must stay within tau. For each mask of None levels the run with None is compared, on the signal extent, with '
                   'the full symbolic run after substituting zeros for that level (and with the oracle given zeros).',
    'bounds': C01.META['bounds'],
    'outside': C01.META['outside'] + '; None-masks: all 2^J for J<=2, three masks for J=3',
    'assumptions': C01.META['assumptions'] + ['signal extent of a pyramid = the size whose wavedec gave its shapes'],
}


def configs(tier, seed):
    base = C01.configs(tier, seed)
    out = []
    for i, c in enumerate(base):
        if tier == 'quick' and c['dim'] == 1 and not ((i + seed) % 3 == 0 or c['N'] <= 5):
            continue
        out.append(dict(c, mask=[]))
    # None-level masks on a slice
    waves = ['db2', 'bior2.4'] if tier == 'quick' else ['haar', 'db2', 'db3', 'bior2.4', 'bior3.1', 'sym4']
    for w in waves:
        L = D.filt_len(w)
        for mode in D.MODES:
            for J in (1, 2, 3):
                masks = [m for m in itertools.product([0, 1], repeat=J) if any(m)]
                if J == 3:
                    masks = [(1, 0, 0), (0, 1, 1), (1, 1, 1)]
                for m in masks:
                    for n in ((2 * L + 1, 2 * L + 4) if tier == 'quick' else (L + 1, 2 * L, 2 * L + 1, 2 * L + 4)):
                        out.append(dict(dim=1, wave=w, mode=mode, J=J, N=n, B=1, C=1, mask=list(m)))
                    if J <= 2:
                        out.append(dict(dim=2, wave=w, mode=mode, J=J, H=L + 3, W=2 * L, B=1, C=1, mask=list(m)))
    return out


def _sym_pyramid(cfg):
    yl_s, yh_s = D.pyramid_shapes(cfg)
    B, C = cfg['B'], cfg['C']
    yl, ids_l = core.symin((B, C) + tuple(yl_s), name='yl')
    yh = []; ids_h = []
    for j, s in enumerate(yh_s):
        t, i = core.symin((B, C) + tuple(s), name='yh%d' % (j + 1))
        yh.append(t); ids_h.append(i)
    return yl, yh, ids_l, ids_h


def _inv(pw, cfg, yl, yh):
    return D.make_module(pw, 'inv1' if cfg['dim'] == 1 else 'inv2', cfg)((yl, yh))


def _all_ids(ids_l, ids_h):
    return np.concatenate([ids_l.reshape(-1)] + [i.reshape(-1) for i in ids_h])


def _basis_pyramid(cfg, shapes_l, shapes_h, mask):
    """one-hot pyramids stacked on the batch axis (B=C=1 per slice handled by caller)"""
    B, C = cfg['B'], cfg['C']
    sizes = [int(np.prod((B, C) + tuple(shapes_l)))] + [int(np.prod((B, C) + tuple(s))) for s in shapes_h]
    n = sum(sizes)
    E = np.eye(n)
    off = 0
    parts = []
    for sz, s in zip(sizes, [shapes_l] + list(shapes_h)):
        blk = E[:, off:off + sz].reshape((n, B, C) + tuple(s)).reshape((n * B, C) + tuple(s))
        parts.append(blk); off += sz
    return parts[0], parts[1:], n


def _extent(a, cfg):
    return a[:, :, :cfg['N']] if cfg['dim'] == 1 else a[:, :, :cfg['H'], :cfg['W']]


def _oracle_rows(cfg, shapes_l, shapes_h, mask):
    """rows of waverec over the per-slice pyramid (levels in mask passed as None): array (out..., n_slice)"""
    sizes = [int(np.prod(shapes_l))] + [int(np.prod(s)) for s in shapes_h]
    n = sum(sizes)
    E = np.eye(n)
    off = 0
    arrs = []
    for sz, s in zip(sizes, [shapes_l] + list(shapes_h)):
        arrs.append(E[:, off:off + sz].reshape((n,) + tuple(s))); off += sz
    yh = [None if (mask and mask[j]) else a for j, a in enumerate(arrs[1:])]
    if cfg['dim'] == 2:
        yh2 = [(None, None, None) if h is None else tuple(np.take(h, i, axis=-3) for i in range(3)) for h in yh]
        r = pywt.waverec2([arrs[0]] + yh2[::-1], cfg['wave'], mode=cfg['mode'], axes=(-2, -1))
    else:
        r = pywt.waverec([arrs[0]] + yh[::-1], cfg['wave'], mode=cfg['mode'], axis=-1)
    return np.moveaxis(r, 0, -1)


def _facts(cfg):
    f = C01._facts(cfg)
    f['transform'] = 'dwt%dd.inverse' % cfg['dim']
    f['none_levels'] = bool(cfg.get('mask') and any(cfg['mask']))
    L = D.filt_len(cfg['wave'])
    dims = [cfg['N']] if cfg['dim'] == 1 else [cfg['H'], cfg['W']]
    f['none_at_odd_level'] = False
    if f['none_levels']:
        try:
            _, yh_s = D.pyramid_shapes(cfg)
            m = cfg['mask']
            f['none_at_odd_level'] = any(m[j] and any(s % 2 for s in yh_s[j][-cfg['dim']:]) for j in range(len(m) - 1))
        except Exception:
            pass
    f['per_short_inv'] = bool(cfg['mode'] == 'periodization' and any(_per_short_inv(n, L, cfg['J']) for n in dims))
    return f


def _per_short_inv(n, L, J):
    for _ in range(J):
        ne = n + (n % 2)
        if ne < L - 2:
            return True
        n = ne // 2
    return False


def run_config(cfg):
    res = core.Result(cfg)
    core.begin()
    facts = _facts(cfg)
    mask = cfg.get('mask') or []
    B, C = cfg['B'], cfg['C']
    rt = symtorch.real_torch()
    try:
        shapes_l, shapes_h = D.pyramid_shapes(cfg)
        rows_full = _oracle_rows(cfg, shapes_l, shapes_h, [])
        rows_mask = _oracle_rows(cfg, shapes_l, shapes_h, mask) if any(mask) else None
    except Exception as e:
        res.status = 'skipped'; res.notes.append('oracle raised %s' % type(e).__name__)
        return res
    scale = D.gain([rows_full])
    tau = Fraction(1, 10 ** 9) * Fraction(scale)
    t0 = time.time()
    with symtorch.symbolic():
        yl, yh, ids_l, ids_h = _sym_pyramid(cfg)
        so = core.outcome(lambda: _inv(symtorch.sym(), cfg, yl, list(yh)))
        som = None
        if any(mask):
            som = core.outcome(lambda: _inv(symtorch.sym(), cfg, yl, [None if mask[j] else h for j, h in enumerate(yh)]))
    res.symexec_s = time.time() - t0
    res.funcs = sorted(T.STATE.funcs_entered)
    ids = _all_ids(ids_l, ids_h)
    El, Eh, n = _basis_pyramid(cfg, shapes_l, shapes_h, mask)
    tl = rt.tensor(El, dtype=rt.float64); th = [rt.tensor(e, dtype=rt.float64) for e in Eh]
    ro = core.outcome(lambda: _inv(symtorch.real(), cfg, tl, list(th)))
    if not D.same_outcome(res, so, ro):
        return res
    if som is not None:
        rom = core.outcome(lambda: _inv(symtorch.real(), cfg, tl, [None if mask[j] else h for j, h in enumerate(th)]))
        if not D.same_outcome(res, som, rom):
            return res
    if so[0] == 'raise' or (som is not None and som[0] == 'raise'):
        bad = so if so[0] == 'raise' else som
        res.status = 'violation'
        res.violations.append(dict(what='inverse raises %s: %s on a forward-compatible pyramid' % (bad[1], bad[2][:120]), facts=facts,
                                   replay=dict(kind='raise'), reproduced=True))
        return res
    y = so[1]; ry = ro[1]
    exp_sp = rows_full.shape[:-1]
    if tuple(y.shape) != (B, C) + tuple(exp_sp):
        res.status = 'violation'
        res.violations.append(dict(what='reconstruction has shape %s, PyWavelets gives %s' % (tuple(y.shape), (B, C) + tuple(exp_sp)), facts=facts,
                                   replay=dict(kind='shape'), reproduced=tuple(ry.shape[1:]) == tuple(y.shape[1:])))
        return res
    dev = D.validate_linear([y.a], [ry], ids, n, B)
    if som is not None:
        dev = max(dev, D.validate_linear([som[1].a], [rom[1]], ids, n, B))
    res.validated = dev
    if dev > 1e-10 * scale:
        res.status = 'error'; res.trace = 'symbolic operator deviates from real torch by %g' % dev
        return res
    st = smt.Stats(); solver = smt.Solver(stats=st)

    def ref_rows(rows):
        per = rows.reshape(-1, rows.shape[-1])
        out = []
        for b in range(B):
            for c in range(C):
                at = np.concatenate([ids_l[b, c].reshape(-1)] + [i[b, c].reshape(-1) for i in ids_h])
                out.extend(core.ref_poly_rows(per, at))
        return out
    refs = ref_rows(rows_full)
    sats = [('full',) + s for s in D.decide_bands(res, solver, [y.a], [refs], tau, ['rec'])]
    if som is not None and not sats:
        ym = som[1]
        # (a) None == zeros of the right shape, on the signal extent: substitute 0 for the masked levels in the full run
        zero_map = {}
        for j, m in enumerate(mask):
            if m:
                for a in ids_h[j].reshape(-1):
                    zero_map[int(a)] = P.ZERO
        ye = _extent(y.a, cfg); yme = _extent(ym.a, cfg)
        if ye.shape != yme.shape:
            res.status = 'violation'
            res.violations.append(dict(what='with None levels the output %s does not cover the signal extent %s' % (tuple(ym.shape), ye.shape), facts=facts,
                                       replay=dict(kind='shape_none'), reproduced=True))
            return res
        subs = [p.subst(zero_map) for p in ye.reshape(-1)]
        s1 = D.decide_bands(res, solver, [yme], [subs], tau, ['rec_none_vs_zeros'])
        sats += [('none_vs_zeros',) + s for s in s1]
        # (b) and equals PyWavelets given None
        if not s1:
            rm = ref_rows(rows_mask)
            rme = np.array(rm, dtype=object).reshape((B, C) + rows_mask.shape[:-1])
            s2 = D.decide_bands(res, solver, [yme], [list(_extent(rme, cfg).reshape(-1))], tau, ['rec_none_vs_pywt'])
            sats += [('none_vs_pywt',) + s for s in s2]
    if not D.canary_ok(res, y.a.reshape(-1)[0] - refs[0], ids[0], tau):
        return res
    res.stats = st
    for kind, name, k, model in sats:
        pl = core.model_array(model, ids_l); ph = [core.model_array(model, i) for i in ids_h]
        rep = _replay_values(cfg, pl, ph, kind, k, float(tau))
        res.violations.append(dict(what='[%s] reconstruction sample %d differs by %.3g' % (kind, k, rep['diff']), facts=facts,
                                   replay=dict(kind='values', sub=kind, yl=pl.tolist(), yh=[p.tolist() for p in ph], k=int(k), tau=float(tau)),
                                   reproduced=rep['reproduced']))
    if res.violations:
        res.status = 'violation'
    return res


def _replay_values(cfg, pl, ph, kind, k, tau):
    rt = symtorch.real_torch()
    mask = cfg.get('mask') or []
    tl = rt.tensor(pl, dtype=rt.float64); th = [rt.tensor(p, dtype=rt.float64) for p in ph]
    use_none = kind in ('none_vs_zeros', 'none_vs_pywt')
    got = _inv(symtorch.real(), cfg, tl, [None if (use_none and mask[j]) else h for j, h in enumerate(th)]).detach().numpy()
    if kind == 'none_vs_zeros':
        ref = _inv(symtorch.real(), cfg, tl, [h * 0 if mask[j] else h for j, h in enumerate(th)]).detach().numpy()
        got = _extent(got, cfg); ref = _extent(ref, cfg)
    else:
        ref = D.pywt_rec(cfg, pl, [None if (use_none and mask[j]) else p for j, p in enumerate(ph)]) if cfg['dim'] == 1 else None
        if ref is None:
            co = [pl] + [(None, None, None) if (use_none and mask[j]) else tuple(np.take(p, i, axis=-3) for i in range(3)) for j, p in list(enumerate(ph))[::-1]]
            ref = pywt.waverec2(co, cfg['wave'], mode=cfg['mode'], axes=(-2, -1))
        if use_none:
            got = _extent(got, cfg); ref = _extent(ref, cfg)
    if got.shape != ref.shape:
        return dict(reproduced=True, diff=float('inf'))
    diff = abs(float(got.reshape(-1)[k]) - float(ref.reshape(-1)[k]))
    return dict(reproduced=diff > tau / 2, diff=diff)


def replay(payload):
    cfg = payload['config']; rp = payload['replay']
    core.begin()
    rt = symtorch.real_torch()
    if rp['kind'] == 'values':
        r = _replay_values(cfg, np.array(rp['yl']), [np.array(h) for h in rp['yh']], rp['sub'], rp['k'], rp['tau'])
        return dict(reproduced=r['reproduced'], detail=r)
    shapes_l, shapes_h = D.pyramid_shapes(cfg)
    B, C = cfg['B'], cfg['C']
    mask = cfg.get('mask') or []
    tl = rt.zeros((B, C) + tuple(shapes_l), dtype=rt.float64)
    th = [None if (mask and mask[j]) else rt.zeros((B, C) + tuple(s), dtype=rt.float64) for j, s in enumerate(shapes_h)]
    ro = core.outcome(lambda: _inv(symtorch.real(), cfg, tl, th))
    if rp['kind'] == 'raise':
        return dict(reproduced=ro[0] == 'raise', detail=ro[:3])
    return dict(reproduced=True, detail='shape check: see run output')
