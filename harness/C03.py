"""C03 — DTCWT analysis equals the reference dual-tree implementation (dtcwt 0.14 NumPy)."""
import numpy as np
import symtorch
from vlib import core, lincheck
from harness import dtlib as DT, dwtlib as D

SIZES_Q = [(2, 2), (3, 5), (4, 4), (6, 8), (5, 7), (8, 8), (10, 12), (9, 12)]

META = {
    'functions': ['pytorch_wavelets.DTCWTForward.__init__', 'pytorch_wavelets.DTCWTForward.forward', 'pytorch_wavelets.dtcwt.transform_funcs.FWD_J1.forward',
                  'pytorch_wavelets.dtcwt.transform_funcs.FWD_J2PLUS.forward', 'pytorch_wavelets.dtcwt.transform_funcs.fwd_j1', 'pytorch_wavelets.dtcwt.transform_funcs.fwd_j2plus',
                  'pytorch_wavelets.dtcwt.transform_funcs.highs_to_orientations', 'pytorch_wavelets.dtcwt.lowlevel.colfilter', 'pytorch_wavelets.dtcwt.lowlevel.rowfilter',
                  'pytorch_wavelets.dtcwt.lowlevel.coldfilt', 'pytorch_wavelets.dtcwt.lowlevel.rowdfilt', 'pytorch_wavelets.dtcwt.lowlevel.q2c',
                  'pytorch_wavelets.dtcwt.lowlevel.prep_filt', 'pytorch_wavelets.utils.symm_pad_1d', 'pytorch_wavelets.utils.reflect', 'pytorch_wavelets.dtcwt.coeffs._load_from_file'],
    'explanation': 'C03: DTCWTForward is run on input atoms; the lowpass and every (orientation, real/imag) subband element of every level minus the basis-response row of '
                   'dtcwt.Transform2d.forward must stay within tau; pyramid shapes are compared with the reference pyramid.',
    'bounds': {'added_families': ['contexts nograd / reqgrad / transposed / chlast (near_sym_a+qshift_a 6x8 C=2; near_sym_b+qshift_b 5x6 B=2)', '33 and 17 channels on 4x4 (J=2,3); J=4 on 8x8, 6x8, 24x8; J=5 on 12x16'],
               'quick': {'filter pairs': DT.QUICK_PAIRS, 'sizes': SIZES_Q, 'J': [1, 2, 3], 'batch': '(1,1), (2,2) on a slice'},
               'thorough': {'filter pairs': 'all 20', 'sizes': '{2..12}^2 (seed-rotated third) + (16,16),(13,16)', 'J': '1..3 (J=3 only up to 12x12), J=4 on 16x16'}},
    'outside': 'sizes above the lists, J>4, user-supplied filter tuples, float rounding in kernels',
    'assumptions': ['real-arithmetic semantics', 'dtcwt 0.14 Transform2d.forward is linear (checked per configuration)'],
}


def _wide_deep(out):
    # many channels (channel/batch folding), and four / five levels on sizes whose level sizes alternate between needing
    # the one-sample border and not needing it
    out.append(dict(biort='near_sym_a', qshift='qshift_a', J=2, H=4, W=4, B=1, C=33))
    out.append(dict(biort='near_sym_a', qshift='qshift_a', J=3, H=4, W=4, B=2, C=17))
    for (h, w, J) in [(8, 8, 4), (6, 8, 4), (24, 8, 4), (12, 16, 5)]:
        out.append(dict(biort='near_sym_a', qshift='qshift_a', J=J, H=h, W=w, B=1, C=1))


def configs(tier, seed):
    out = []
    if tier == 'quick':
        for (b, q) in DT.QUICK_PAIRS:
            for (h, w) in SIZES_Q:
                for J in (1, 2, 3):
                    if J == 3 and (h * w > 100 and (b, q) != DT.QUICK_PAIRS[0]):
                        continue
                    if J >= 2 and (h, w) in ((6, 8), (8, 8)) and (b, q) not in DT.QUICK_PAIRS[:3]:
                        continue
                    out.append(dict(biort=b, qshift=q, J=J, H=h, W=w, B=1, C=1))
        out.append(dict(biort='near_sym_a', qshift='qshift_a', J=2, H=6, W=5, B=2, C=2))
        # filters given as tuples of arrays (the documented alternative to names)
        out.append(dict(biort='near_sym_b', qshift='qshift_b', J=2, H=6, W=8, B=1, C=1, as_tuples=True))
        out.append(dict(biort='legall', qshift='qshift_06', J=3, H=5, W=7, B=1, C=1, as_tuples=True))
        _wide_deep(out)
        for ctx in D.CTXS:
            out.append(dict(biort='near_sym_a', qshift='qshift_a', J=2, H=6, W=8, B=1, C=2, ctx=ctx))
            out.append(dict(biort='near_sym_b', qshift='qshift_b', J=2, H=5, W=6, B=2, C=1, ctx=ctx))
    else:
        sizes = [(h, w) for h in range(2, 13) for w in range(2, 13)]
        for i, (b, q) in enumerate(DT.ALL_PAIRS):
            for k, (h, w) in enumerate(sizes):
                if (k + i + seed) % 3:
                    continue
                for J in (1, 2, 3):
                    out.append(dict(biort=b, qshift=q, J=J, H=h, W=w, B=1, C=1))
            out.append(dict(biort=b, qshift=q, J=2, H=13, W=16, B=1, C=1))
        for (b, q) in DT.QUICK_PAIRS[:3]:
            out.append(dict(biort=b, qshift=q, J=3, H=16, W=16, B=1, C=1))
            out.append(dict(biort=b, qshift=q, J=4, H=16, W=16, B=1, C=1))
        out.append(dict(biort='near_sym_b', qshift='qshift_d', J=2, H=7, W=6, B=2, C=3))
        _wide_deep(out)
        for ctx in D.CTXS:
            for (b, q) in DT.QUICK_PAIRS[:3]:
                out.append(dict(biort=b, qshift=q, J=3, H=10, W=12, B=1, C=2, ctx=ctx))
    return out


def case(cfg):
    in_specs = [('x', (cfg['B'], cfg['C'], cfg['H'], cfg['W']))]

    def impl(pw, ts):
        b, q = cfg['biort'], cfg['qshift']
        if cfg.get('as_tuples'):
            import dtcwt.coeffs as RC
            h0o, g0o, h1o, g1o = RC.biort(b)
            h0a, h0b, g0a, g0b, h1a, h1b, g1a, g1b = RC.qshift(q)
            b, q = (h0o, h1o), (h0a, h0b, h1a, h1b)
        yl, yh = D.call_ctx(pw, cfg, lambda a: pw.DTCWTForward(biort=b, qshift=q, J=cfg['J'])(a[0]), ts)
        return [('yl', yl)] + [('yh%d' % (j + 1), h) for j, h in enumerate(yh)]

    def ref(arrs):
        yl, yh, _ = DT.ref_forward(cfg['biort'], cfg['qshift'], cfg['J'], arrs[0])
        return [yl] + yh
    return in_specs, impl, ref


def run_config(cfg):
    res = core.Result(cfg)
    core.begin()
    in_specs, impl, ref = case(cfg)
    lincheck.check_linear(res, cfg, dict(biort=cfg['biort'], qshift=cfg['qshift'], J=cfg['J']), in_specs, impl, ref, oracle_offset=True, what='DTCWT forward')
    return res


def replay(payload):
    core.begin()
    in_specs, impl, ref = case(payload['config'])
    return lincheck.replay_generic(payload, in_specs, impl, ref)
