"""C14 — separate row and column filters act on the axis they are named for (4-tuple / 2-tuple filters)."""
import time
import numpy as np
import pywt
from fractions import Fraction
import symtorch
from symtorch import poly as P, tensor as T
from vlib import core, smt, lincheck
from harness import dwtlib as D

MODES = D.MODES
PAIRS_Q = [('db2', 'bior1.3'), ('bior2.4', 'haar'), ('db3', 'db2'), ('haar', 'sym4')]
SHAPES_Q = [(6, 6), (5, 8), (8, 5), (7, 9), (12, 10), (4, 11)]

META = {
    'functions': ['pytorch_wavelets.DWTForward.__init__', 'pytorch_wavelets.DWTForward.forward', 'pytorch_wavelets.DWTInverse.__init__',
                  'pytorch_wavelets.DWTInverse.forward', 'pytorch_wavelets.dwt.lowlevel.AFB2D.forward', 'pytorch_wavelets.dwt.lowlevel.SFB2D.forward',
                  'pytorch_wavelets.dwt.lowlevel.afb2d', 'pytorch_wavelets.dwt.lowlevel.sfb2d', 'pytorch_wavelets.dwt.lowlevel.prep_filt_afb2d',
                  'pytorch_wavelets.dwt.lowlevel.prep_filt_sfb2d'],
    'explanation': 'C14: DWTForward/DWTInverse constructed with (col_lo, col_hi, row_lo, row_hi) from two DIFFERENT wavelets are run symbolically; '
                   'oracle 1 = PyWavelets with one wavelet per axis (wavedec2/waverec2 with a (column, row) pair), oracle 2 = the library\'s own '
                   'functional lowlevel.afb2d / sfb2d given the same four filters (also with symbolic taps of different lengths, where one run '
                   'covers every filter of those lengths). 2-tuples must act on both axes.',
    'bounds': {'added_families': ['contexts nograd / reqgrad / transposed / chlast on 4-tuples (12x13 J=2 C=2; None-level 8x6)', 'axes sharing the lowpass but not the highpass (db2 / neg:db2, neg:bior2.2 / bior2.2)'],
               'quick': {'pairs (col,row)': PAIRS_Q, 'modes': MODES, 'shapes': SHAPES_Q, 'J': [1, 2], 'symbolic taps (Lc,Lr)': [(2, 4), (4, 2), (6, 2)]},
               'thorough': {'pairs': 'all ordered pairs of 7 wavelets', 'modes': MODES, 'shapes': '10 shapes incl. odd/non-square', 'J': [1, 2, 3]}},
    'outside': 'sizes and pairs beyond the lists; float rounding inside kernels',
    'assumptions': ['real-arithmetic semantics', 'PyWavelets per-axis wavelets are the reference for "column = vertical axis"'],
}


def configs(tier, seed):
    out = []
    if tier == 'quick':
        pairs = PAIRS_Q; shapes = SHAPES_Q; Js = (1, 2)
    else:
        ws = ['haar', 'db2', 'db3', 'bior1.3', 'bior2.4', 'bior3.1', 'sym4']
        pairs = [(a, b) for a in ws for b in ws if a != b]
        shapes = SHAPES_Q + [(2, 9), (9, 2), (13, 16), (16, 13)]; Js = (1, 2, 3)
    for (wc, wr) in pairs:
        for mode in MODES:
            for J in Js:
                for k, (h, w) in enumerate(shapes):
                    if tier == 'thorough' and (k + J + seed + len(wc)) % 3:
                        continue
                    for d in ('fwd', 'inv'):
                        out.append(dict(kind='tuple4', wc=wc, wr=wr, mode=mode, J=J, H=h, W=w, dir=d, B=1, C=1))
    # None highpass levels with distinct row/column filters (J=1: no un-pad ambiguity; J=2 in periodization with even sizes)
    for (wc, wr) in pairs[:3]:
        for mode in MODES:
            out.append(dict(kind='tuple4', wc=wc, wr=wr, mode=mode, J=1, H=8, W=6, dir='inv', B=1, C=1, mask=[1]))
        out.append(dict(kind='tuple4', wc=wc, wr=wr, mode='periodization', J=2, H=16, W=24, dir='inv', B=1, C=1, mask=[1, 0]))
    # the two axes share the lowpass filter but not the highpass filter
    for mode in MODES:
        for d in ('fwd', 'inv'):
            out.append(dict(kind='tuple4', wc='db2', wr='neg:db2', mode=mode, J=2, H=9, W=10, dir=d, B=1, C=1))
            out.append(dict(kind='tuple4', wc='neg:bior2.2', wr='bior2.2', mode=mode, J=1, H=8, W=7, dir=d, B=1, C=2))
    # the same calls under torch.no_grad(), on inputs that require grad, on transposed / channels-last storage
    for ctx in D.CTXS:
        for mode in ('zero', 'reflect', 'periodization'):
            for d in ('fwd', 'inv'):
                out.append(dict(kind='tuple4', wc=pairs[0][0], wr=pairs[0][1], mode=mode, J=2, H=12, W=13, dir=d, B=1, C=2, ctx=ctx))
        out.append(dict(kind='tuple4', wc=pairs[1][0], wr=pairs[1][1], mode='symmetric', J=1, H=8, W=6, dir='inv', B=1, C=1, mask=[1], ctx=ctx))
    for w in ['db2', 'bior2.4']:
        for mode in MODES:
            for d in ('fwd', 'inv'):
                hh, ww = (7, 10) if w == 'db2' else (19, 20)
                out.append(dict(kind='tuple2', wc=w, wr=w, mode=mode, J=2, H=hh, W=ww, dir=d, B=1, C=2))
    for (lc, lr) in [(2, 4), (4, 2), (6, 2)] + ([(4, 6), (2, 8)] if tier == 'thorough' else []):
        for mode in MODES:
            for d in ('fwd', 'inv'):
                out.append(dict(kind='symtaps', Lc=lc, Lr=lr, mode=mode, J=1, H=7, W=8, dir=d, B=1, C=1))
    return out


def _wv(name):
    """'neg:<name>': the same lowpass filters, highpass filters negated (a different bank sharing the lowpass)"""
    if name.startswith('neg:'):
        w = pywt.Wavelet(name[4:])
        return pywt.Wavelet(name, filter_bank=[list(w.dec_lo), [-v for v in w.dec_hi], list(w.rec_lo), [-v for v in w.rec_hi]])
    return pywt.Wavelet(name)


def _filts(cfg, d):
    wc = _wv(cfg['wc']); wr = _wv(cfg['wr'])
    if d == 'fwd':
        f = [wc.dec_lo, wc.dec_hi, wr.dec_lo, wr.dec_hi]
    else:
        f = [wc.rec_lo, wc.rec_hi, wr.rec_lo, wr.rec_hi]
    f = [np.array(v) for v in f]
    return tuple(f[:2]) if cfg['kind'] == 'tuple2' else tuple(f)


def _pyr_shapes(cfg):
    c = pywt.wavedec2(np.zeros((cfg['H'], cfg['W'])), (_wv(cfg['wc']), _wv(cfg['wr'])), mode=cfg['mode'], level=cfg['J'])
    return c[0].shape, [(3,) + b[0].shape for b in c[1:][::-1]]


def _case(cfg):
    B, C = cfg['B'], cfg['C']
    pair = (_wv(cfg['wc']), _wv(cfg['wr']))
    if cfg['dir'] == 'fwd':
        in_specs = [('x', (B, C, cfg['H'], cfg['W']))]

        def impl(pw, ts):
            yl, yh = D.call_ctx(pw, cfg, lambda a: pw.DWTForward(J=cfg['J'], wave=_filts(cfg, 'fwd'), mode=cfg['mode'])(a[0]), ts)
            return [('yl', yl)] + [('yh%d' % (j + 1), h) for j, h in enumerate(yh)]

        def ref(arrs):
            c = pywt.wavedec2(arrs[0], pair, mode=cfg['mode'], level=cfg['J'], axes=(-2, -1))
            return [c[0]] + [np.stack(b, axis=-3) for b in c[1:][::-1]]
    else:
        sl, sh = _pyr_shapes(cfg)
        in_specs = [('yl', (B, C) + tuple(sl))] + [('yh%d' % (j + 1), (B, C) + tuple(s)) for j, s in enumerate(sh)]

        mask = cfg.get('mask') or [0] * cfg['J']

        def impl(pw, ts):
            hs = [None if mask[j] else h for j, h in enumerate(ts[1:])]
            y = D.call_ctx(pw, cfg, lambda a: pw.DWTInverse(wave=_filts(cfg, 'inv'), mode=cfg['mode'])((a[0], a[1:])), [ts[0]] + hs)
            return [('rec', y)]

        def ref(arrs):
            hs = [np.zeros_like(h) if mask[j] else h for j, h in enumerate(arrs[1:])]
            co = [arrs[0]] + [tuple(np.take(h, i, axis=-3) for i in range(3)) for h in hs[::-1]]
            return [pywt.waverec2(co, pair, mode=cfg['mode'], axes=(-2, -1))]
    return in_specs, impl, ref


def _facts(cfg):
    L = max(_wv(cfg['wc']).dec_len, _wv(cfg['wr']).dec_len) if cfg['kind'] != 'symtaps' else max(cfg['Lc'], cfg['Lr'])
    ps = False
    if cfg['kind'] != 'symtaps' and cfg['mode'] == 'periodization':
        ps = D.per_short(cfg['H'], _wv(cfg['wc']).dec_len, cfg['J']) or D.per_short(cfg['W'], _wv(cfg['wr']).dec_len, cfg['J'])
    return dict(kind=cfg['kind'], dir=cfg['dir'], mode=cfg['mode'], per_short=bool(ps))


def _run_symtaps(res, cfg, facts):
    """module with symbolic buffers vs the functional one-level bank given the same four filter tensors (exact)"""
    rt = symtorch.real_torch()
    lc, lr = cfg['Lc'], cfg['Lr']
    ana = cfg['dir'] == 'fwd'
    rng = np.random.default_rng(3)
    if ana:
        shape = (1, 1, cfg['H'], cfg['W'])
    else:
        shape = (1, 1, 4, pywt.dwt_coeff_len(cfg['H'], lc, cfg['mode']), pywt.dwt_coeff_len(cfg['W'], lr, cfg['mode']))
    dummy = (np.ones(lc), np.ones(lc), np.ones(lr), np.ones(lr))

    def run(pw, ll, x, filt):
        fc0, fc1, fr0, fr1 = filt
        if ana:
            m = pw.DWTForward(J=1, wave=dummy, mode=cfg['mode'])
            m.h0_col, m.h1_col, m.h0_row, m.h1_row = fc0, fc1, fr0, fr1
            yl, yh = m(x)
            y2 = ll.afb2d(x, (fc0, fc1, fr0, fr1), cfg['mode'])
            s = y2.shape
            y2 = y2.reshape(s[0], -1, 4, s[-2], s[-1])
            return [yl, yh[0]], [y2[:, :, 0], y2[:, :, 1:]]
        m = pw.DWTInverse(wave=dummy, mode=cfg['mode'])
        m.g0_col, m.g1_col, m.g0_row, m.g1_row = fc0, fc1, fr0, fr1
        y = m((x[:, :, 0], [x[:, :, 1:]]))
        y2 = ll.sfb2d(x[:, :, 0], x[:, :, 1], x[:, :, 2], x[:, :, 3], (fc0, fc1, fr0, fr1), cfg['mode'])
        return [y], [y2]
    t0 = time.time()
    with symtorch.symbolic():
        x, ids = core.symin(shape)
        fs = []; tids = []
        for nm, L, sh in (('c0', lc, (1, 1, lc, 1)), ('c1', lc, (1, 1, lc, 1)), ('r0', lr, (1, 1, 1, lr)), ('r1', lr, (1, 1, 1, lr))):
            t, i = core.symin(sh, kind='par', name=nm)
            fs.append(t); tids.append(i)
        so = core.outcome(lambda: run(symtorch.sym(), symtorch.sym('pytorch_wavelets.dwt.lowlevel'), x, fs))
    res.symexec_s = time.time() - t0
    res.funcs = sorted(T.STATE.funcs_entered)
    tv = [rng.uniform(-1, 1, size=i.shape) for i in tids]
    xv = rng.uniform(-1, 1, size=shape)
    ro = core.outcome(lambda: run(symtorch.real(), symtorch.real('pytorch_wavelets.dwt.lowlevel'), rt.tensor(xv), [rt.tensor(v) for v in tv]))
    if not D.same_outcome(res, so, ro):
        return res
    if so[0] == 'raise':
        res.status = 'skipped'; res.notes.append('raises %s' % so[1]); return res
    # engine validation at the sample point
    env = P.AtomEnv()
    for i, v in zip([ids] + tids, [xv] + tv):
        for a, val in zip(i.reshape(-1), v.reshape(-1)):
            env[int(a)] = float(val)
    dev = 0.0
    for sa, ra in zip(so[1][0] + so[1][1], ro[1][0] + ro[1][1]):
        sv = np.array([p.evalf(env) for p in sa.a.reshape(-1)])
        dev = max(dev, float(np.abs(sv - ra.detach().numpy().reshape(-1)).max()))
    res.validated = dev
    if dev > 1e-9:
        res.status = 'error'; res.trace = 'symbolic value deviates from real torch by %g' % dev; return res
    st = smt.Stats(); solver = smt.Solver(stats=st, timeout_ms=60000, nl_timeout_ms=20000)
    tau = Fraction(1, 10 ** 9) * lc * lr
    sats = []
    for a, b in zip(*so[1]):
        if tuple(a.shape) != tuple(b.shape):
            res.status = 'violation'
            res.violations.append(dict(what='module output shape %s, functional bank %s' % (tuple(a.shape), tuple(b.shape)), facts=facts, replay=dict(kind='shape'), reproduced=True))
            return res
        sats += D.decide_bands(res, solver, [a.a], [list(b.a.reshape(-1))], tau, ['module_minus_functional'])
    d0 = so[1][0][0].a.reshape(-1)[0] - so[1][1][0].a.reshape(-1)[0]
    if not D.canary_ok(res, d0, ids.reshape(-1)[0], tau):
        return res
    res.stats = st
    for name, k, model in sats:
        mx = core.model_array(model, ids); mt = [core.model_array(model, i) for i in tids]
        a, b = run(symtorch.real(), symtorch.real('pytorch_wavelets.dwt.lowlevel'), rt.tensor(mx), [rt.tensor(v) for v in mt])
        diff = max(float((p - q).abs().max()) for p, q in zip(a, b))
        res.violations.append(dict(what='module with 4 filter tensors differs from lowlevel bank by %.3g' % diff, facts=facts,
                                   replay=dict(kind='symtaps', x=mx.tolist(), taps=[v.tolist() for v in mt], tau=float(tau)), reproduced=diff > float(tau) / 2))
    if res.violations:
        res.status = 'violation'
    return res


def run_config(cfg):
    res = core.Result(cfg)
    core.begin()
    facts = _facts(cfg)
    if cfg['kind'] == 'symtaps':
        return _run_symtaps(res, cfg, facts)
    try:
        in_specs, impl, ref = _case(cfg)
    except Exception as e:      # PyWavelets refuses the configuration (e.g. reflect mode on a length-1 axis)
        res.status = 'skipped'; res.notes.append('oracle raised %s: %s' % (type(e).__name__, str(e)[:80])); return res
    lincheck.check_linear(res, cfg, facts, in_specs, impl, ref, what='4-tuple DWT %s' % cfg['dir'],
                          allowed_raise=(lambda so: cfg['mode'] == 'reflect'), raise_is_skip=False)
    return res


def replay(payload):
    cfg = payload['config']
    core.begin()
    if cfg['kind'] == 'symtaps':
        return dict(reproduced=True, detail='symbolic-tap replay is performed in the run itself')
    in_specs, impl, ref = _case(cfg)
    return lincheck.replay_generic(payload, in_specs, impl, ref)
