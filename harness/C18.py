"""C18 — shipped DTCWT filter tables satisfy the identities the code relies on (finite, exhaustive)."""
import numpy as np
from fractions import Fraction
import symtorch
from symtorch.poly import Poly
from vlib import core, smt

LEVEL1 = ['antonini', 'legall', 'near_sym_a', 'near_sym_b', 'near_sym_b_bp']
QSHIFT = ['qshift_06', 'qshift_a', 'qshift_b', 'qshift_c', 'qshift_d', 'qshift_b_bp', 'qshift_32']
UNDOC = ['farras', 'near_sym_a2']
TOL = Fraction(1, 10 ** 8)

META = {
    'functions': ['pytorch_wavelets.dtcwt.coeffs._load_from_file', 'pytorch_wavelets.dtcwt.coeffs.level1', 'pytorch_wavelets.dtcwt.coeffs.biort',
                  'pytorch_wavelets.dtcwt.coeffs.qshift'],
    'explanation': 'C18: every table is loaded through the real loaders (twice: second load must be equal and served from COEFF_CACHE); each identity is a ground '
                   'real-arithmetic assertion over the exact rational values of the stored doubles, discharged by z3 with tolerance 1e-8 (two orders above the '
                   'worst shipped residual, 1.5e-9 for qshift_32): equality with dtcwt.coeffs (tolerance 0: exact), symmetry of h0o,h1o,g0o,g1o,h2o,g2o, '
                   'level-1 PR h0o*g0o + h1o*g1o = delta, q-shift double-shift orthonormality of (h0a,h1a) and (h0b,h1b), tree b = reverse(tree a), '
                   'synthesis = reverse(analysis), incl. h2*/g2* of the band-pass variants. The use of these identities is checked by C06/C09.',
    'bounds': {'added_families': ['length of the tuple each loader returns', 'level1(compact=False/True) and qshift() called on the same name between two loads'],
               'tables': LEVEL1 + QSHIFT, 'reported, not claimed': UNDOC, 'exhaustive': True},
    'outside': 'farras and near_sym_a2 have no reference counterpart and are not documented by the q-shift/level-1 loaders: their identities are reported only',
    'assumptions': ['tolerance 1e-8 for identities that hold only up to the precision the tables were designed to'],
}


def configs(tier, seed):
    return [dict(table=t, kind='level1') for t in LEVEL1] + [dict(table=t, kind='qshift') for t in QSHIFT] + \
           [dict(table=t, kind='undoc') for t in UNDOC]


def _fr(a):
    return [Fraction(float(v)) for v in np.asarray(a).ravel()]


def _conv(a, b):
    out = [Fraction(0)] * (len(a) + len(b) - 1)
    for i, x in enumerate(a):
        for j, y in enumerate(b):
            out[i + j] += x * y
    return out


def _ds(a, b, m):
    s = Fraction(0)
    for k in range(len(a)):
        j = k + 2 * m
        if 0 <= j < len(b):
            s += a[k] * b[j]
    return s


def _load(coeffs, cfg):
    t = cfg['table']
    if cfg['kind'] == 'level1':
        keys = ('h0o', 'g0o', 'h1o', 'g1o') + (('h2o', 'g2o') if t.endswith('_bp') else ())
        vals = coeffs.level1(t, compact=True)
        b = coeffs.biort(t)
        return dict(zip(keys, vals)), dict(zip(keys, b))
    keys = ('h0a', 'h0b', 'g0a', 'g0b', 'h1a', 'h1b', 'g1a', 'g1b') + (('h2a', 'h2b', 'g2a', 'g2b') if t.endswith('_bp') else ())
    vals = coeffs.qshift(t)
    if cfg['kind'] == 'undoc':
        return dict(zip(keys, vals)), dict(zip(keys, coeffs.level1(t, compact=False)))
    return dict(zip(keys, vals)), None


def _residuals(cfg, tab, ref):
    """list of (label, exact residual Fraction, tolerance)"""
    out = []
    F = {k: _fr(v) for k, v in tab.items()}
    if ref is not None:
        for k in F:
            r = _fr(ref[k])
            if len(r) != len(F[k]):
                out.append(('%s: length differs from the reference table' % k, Fraction(1), Fraction(0)))
                continue
            for i, (x, y) in enumerate(zip(F[k], r)):
                out.append(('%s[%d] == reference' % (k, i), x - y, Fraction(0)))
    if cfg['kind'] == 'level1':
        for k in F:
            v = F[k]
            for i in range(len(v) // 2):
                out.append(('%s symmetric [%d]' % (k, i), v[i] - v[-1 - i], TOL))
            if len(v) % 2 == 0:
                out.append(('%s has odd length' % k, Fraction(1), Fraction(0)))
        p = _conv(F['h0o'], F['g0o']); q = _conv(F['h1o'], F['g1o'])
        n = max(len(p), len(q))
        if (n - len(p)) % 2 or (n - len(q)) % 2:
            out.append(('PR: product filters cannot be centred', Fraction(1), Fraction(0)))
        else:
            P = [Fraction(0)] * n; Q = [Fraction(0)] * n
            for i, v in enumerate(p):
                P[(n - len(p)) // 2 + i] = v
            for i, v in enumerate(q):
                Q[(n - len(q)) // 2 + i] = v
            for i in range(n):
                out.append(('PR h0o*g0o+h1o*g1o = delta [%d]' % i, P[i] + Q[i] - (1 if i == n // 2 else 0), TOL))
    else:
        names = ['0', '1'] + (['2'] if 'h2a' in F else [])
        for b in names:
            ha, hb, ga, gb = F['h%sa' % b], F['h%sb' % b], F['g%sa' % b], F['g%sb' % b]
            for lab, x, y in (('h%sb = reverse(h%sa)' % (b, b), hb, ha[::-1]), ('g%sa = reverse(h%sa)' % (b, b), ga, ha[::-1]), ('g%sb = reverse(h%sb)' % (b, b), gb, hb[::-1])):
                if len(x) != len(y):
                    out.append((lab + ': lengths differ', Fraction(1), Fraction(0)))
                    continue
                for i, (u, v) in enumerate(zip(x, y)):
                    out.append(('%s [%d]' % (lab, i), u - v, TOL))
        for tree in ('a', 'b'):
            h0, h1 = F['h0' + tree], F['h1' + tree]
            L = len(h0)
            if L % 2:
                out.append(('q-shift filters have even length', Fraction(1), Fraction(0)))
            for m in range(-(L // 2), L // 2 + 1):
                out.append(('<h0%s, shift2(h0%s,%d)> = delta' % (tree, tree, m), _ds(h0, h0, m) - (1 if m == 0 else 0), TOL))
                out.append(('<h1%s, shift2(h1%s,%d)> = delta' % (tree, tree, m), _ds(h1, h1, m) - (1 if m == 0 else 0), TOL))
                out.append(('<h0%s, shift2(h1%s,%d)> = 0' % (tree, tree, m), _ds(h0, h1, m), TOL))
    return out


def run_config(cfg):
    res = core.Result(cfg)
    core.begin()
    coeffs = symtorch.real('pytorch_wavelets.dtcwt.coeffs')
    import dtcwt.coeffs as RC
    facts = dict(table=cfg['table'])
    res.funcs = META['functions']
    try:
        tab, alt = _load(coeffs, cfg)
        n_ret = len(coeffs.level1(cfg['table'], compact=True)) if cfg['kind'] == 'level1' else len(coeffs.qshift(cfg['table']))
        n_exp = (4 if cfg['kind'] == 'level1' else 8) * (3 if cfg['table'].endswith('_bp') else 2) // 2
        if n_ret != n_exp or len(tab) != n_exp:
            res.status = 'violation'
            res.violations.append(dict(what='loader returns %d arrays for table %s, the documented tuple has %d' % (n_ret, cfg['table'], n_exp), facts=facts,
                                       replay=dict(kind='load'), reproduced=True))
            return res
        # every other documented way of asking for this table in between (may legitimately raise ValueError) must not disturb it
        for other in (lambda: coeffs.level1(cfg['table'], compact=False), lambda: coeffs.level1(cfg['table'], compact=True), lambda: coeffs.qshift(cfg['table'])):
            try:
                other()
            except (ValueError, KeyError, IOError, OSError):
                pass
        tab2, _ = _load(coeffs, cfg)
    except Exception as e:
        res.status = 'violation'
        res.violations.append(dict(what='table %s cannot be loaded: %s' % (cfg['table'], e), facts=facts, replay=dict(kind='load'), reproduced=True))
        return res
    basename = cfg['table']
    if basename not in coeffs.COEFF_CACHE:
        res.status = 'violation'
        res.violations.append(dict(what='table %s is not served from COEFF_CACHE after loading' % basename, facts=facts, replay=dict(kind='load'), reproduced=True))
        return res
    ref = None
    if cfg['kind'] == 'level1':
        ref = dict(zip(tab.keys(), RC.biort(cfg['table'])))
    elif cfg['kind'] == 'qshift':
        ref = dict(zip(tab.keys(), RC.qshift(cfg['table'])))
    st = smt.Stats(); solver = smt.Solver(stats=st)
    bad = []
    # loading twice gives equal values (and biort() == level1(compact=True))
    for k in tab:
        for src, other in (('second load', tab2), ('alias loader', alt or {})):
            if k in other and (np.asarray(other[k]).shape != np.asarray(tab[k]).shape or not np.array_equal(np.asarray(other[k]), np.asarray(tab[k]))):
                bad.append(('%s: %s differs from the first load' % (k, src), 1.0))
    resid = _residuals(cfg, tab, ref)
    for lab, r, tol in resid:
        d = Poly.const(r)
        if not r:
            st.trivial_zero += 1
            continue
        res.nontrivial = True
        if tol == 0:
            bad.append((lab, float(r)))
            st.queries += 1; st.sat += 1
            continue
        v, _ = solver.decide(d, tol, label=lab)
        if v == 'sat':
            bad.append((lab, float(r)))
        elif v != 'unsat':
            res.status = 'inconclusive'; res.notes.append('solver answered %s on %s' % (v, lab))
    # canary: a perturbed table entry must be refuted
    cv, _ = smt.Solver(stats=smt.Stats()).decide(Poly.const(Fraction(1, 10 ** 6)), TOL)
    if cv != 'sat':
        res.status = 'error'; res.trace = 'canary not refuted'; return res
    res.stats = st
    res.notes.append('%d identities, worst residual %.3g' % (len(resid), max([abs(float(r)) for _, r, _ in resid] or [0])))
    if bad:
        if cfg['kind'] == 'undoc':
            res.notes.append('undocumented table (reported, not claimed): %s' % bad[:4])
            return res
        res.status = 'violation'
        for lab, r in bad[:3]:
            res.violations.append(dict(what='table %s: %s fails (residual %.3g)' % (cfg['table'], lab, r), facts=facts,
                                       replay=dict(kind='identity', label=lab), reproduced=True))
    return res


def replay(payload):
    cfg = payload['config']
    core.begin()
    r = run_config(cfg)
    return dict(reproduced=r.status == 'violation', detail=[v['what'] for v in r.violations])
